/-
C02 — the property over histories with ALL sources of points: external writers, the kapacitorLoopback() nodes of stream tasks, the
kapacitorLoopback() nodes of batch tasks. Written over the plain history, without fork table, edges or Collect log.

  A loopback node below from-node #i of task t is handed exactly what the sink under that from-node records (first layer of the
  spec: the points written — by ANY source — while t was enabled, to a pair it declares, that the from-node chain selects; once,
  in order). For each of them it writes back ONE point: database / retention policy = the node's, measurement = the node's (its own
  when none is given), tags = the point's with the node's static tags set, fields as they are, time = what the from() chain
  stamped (truncate / round), no group-by dimensions. It writes them in the order it was handed them. A point written back is a
  write like any other: delivered to every enabled task that declares its pair and selects it, exactly once, in write order
  — `flat` turns a history with loopback steps into the plain history of writes it amounts to, and the first-layer spec
  (`specDelivered`, `specDeliveredPts`) is evaluated on that.
  A task whose loopback node points at one of its own dbrps is refused by StartTask (it never becomes enabled).
  After Drain every loopback write is refused (and the point dropped). Stopping the task does NOT cancel what its loopback node has
  already been handed.

Core Lean only.
-/
import Kap.Spec.C02
import Kap.Model.C02Loop
namespace Kap.C02

/-- The documented point a loopback node `L` below from-node #`i` writes back for write event `w` (task enabled under `froms`). -/
def docLoopWrite (froms : List From) (i : Nat) (L : Loop) (w : WEv) : Point :=
  { id := w.pt.id, db := L.db, rp := L.rp, name := if L.name = "" then w.pt.name else L.name, pass := w.pt.pass,
    pl := { time := (docRec froms i w).time, tags := L.setTags w.pt.pl.tags, fields := w.pt.pl.fields } }

/-- What loopback node #`k` below from-node #`i` writes back for write event `w` (`none`: it is not handed that point). -/
def specLoopOut (i k : Nat) (w : WEv) : Option Point :=
  if qualifies i w then
    w.enabled.bind (fun d => (d.loopAt i k).bind (fun L => if L.valid then some (docLoopWrite d.froms i L w) else none))
  else none

/-- Everything loopback node (`t`, `i`, `k`) has to write back after the plain history `hist`, in order. -/
def specFeed (drp t : String) (i k : Nat) (hist : List Op) : List Point :=
  (writeEvents drp t none hist).filterMap (specLoopOut i k)

def rawOf (q : Point) : RawPoint := { id := q.id, name := q.name, pass := q.pass, pl := q.pl }

/-- a point written back, as the write it is -/
def asWrite (q : Point) : Op := .write q.db q.rp [rawOf q]

/-- The documented point of a batch task's loopback node: measurement = the node's (`.measurement('m')`: "The name of the
measurement. If not specified uses the name of the incoming data"), i.e. the name of the batch when none is given — as on stream edges. -/
def docBatchWrite (L : Loop) (bname : String) (r : RawPoint) : Point :=
  { id := r.id, db := L.db, rp := L.rp, name := if L.name = "" then bname else L.name, pass := r.pass,
    pl := { time := r.pl.time, tags := L.setTags r.pl.tags, fields := r.pl.fields } }

/-- Who wrote: an external writer / an operation that writes nothing (`none`), or a loopback node. Batch tasks' nodes are
`(t, 0, 0)`-tagged with their task id. -/
abbrev Who := Option Src

structure FSt where
  /-- the plain history so far, every operation tagged with its source -/
  thist : List (Who × Op) := []
  done : Src → Nat := fun _ => 0
  closed : Bool := false
deriving Inhabited

def FSt.hist (f : FSt) : List Op := f.thist.map (·.2)

def fstep (drp : String) (f : FSt) : LOp → FSt
  | .ext (.start d) => if d.selfLoop then f else { f with thist := f.thist ++ [(none, .start d)] }
  | .ext (.startfail d) => if d.selfLoop then f else { f with thist := f.thist ++ [(none, .startfail d)] }
  | .ext .drain => { f with thist := f.thist ++ [(none, .drain)], closed := true }
  | .ext op => { f with thist := f.thist ++ [(none, op)] }
  | .loop t i k n =>
    let pend := ((specFeed drp t i k f.hist).drop (f.done (t, i, k))).take n
    { f with thist := if f.closed then f.thist else f.thist ++ pend.map (fun q => (some (t, i, k), asWrite q)),
             done := upd f.done (t, i, k) (f.done (t, i, k) + pend.length) }
  | .batch t L bname pts =>
    if f.closed || !L.valid then f
    else { f with thist := f.thist ++ (pts.map (docBatchWrite L bname)).map (fun q => (some (t, 0, 0), asWrite q)) }

def frun (drp : String) (h : List LOp) : FSt := h.foldl (fstep drp) {}

/-- **The plain history a history with loopback steps amounts to.** -/
def flat (drp : String) (h : List LOp) : List Op := (frun drp h).hist

/-- The points source `src` wrote, in the order it wrote them. -/
def writesOf (src : Src) (th : List (Who × Op)) : List (String × String × RawPoint) :=
  (th.filter (fun x => x.1 == some src)).flatMap (fun x =>
    match x.2 with
    | .write db rp pts => pts.map (fun r => (db, rp, r))
    | _ => [])

def asTriple (q : Point) : String × String × RawPoint := (q.db, q.rp, rawOf q)

/-- `lookup` in a tag list: the first entry under the key (what `p.Tags()[k]` reads when keys are distinct). -/
def tagLookup (k : String) : List (String × String) → Option String
  | [] => none
  | (a, b) :: l => if k = a then some b else tagLookup k l

end Kap.C02
