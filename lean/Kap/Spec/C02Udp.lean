/-
C02 — the property at an ingestion entry point that takes PACKETS of line protocol (the UDP listener): "every point written to a
database/retention policy …" starts at the bytes the client sent. Written without reference to buffers, queues or goroutines:

  the writes a sequence of datagrams amounts to  =  for every datagram, in arrival order, that is well-formed (no line that fails),
     ONE write, to the listener's (database, retention policy), of the points its point lines spell, in line order, each stamped
     with the line's own time stamp (ns) — nothing else, nothing twice, whatever arrives afterwards;
  a datagram with a failing line writes nothing (the code drops it whole; the driver follows what the implementation REPORTED
     — its points_parse_fail statistic — before it applies this, see Driver/C02.lean).

The delivered sequences are then what `specDelivered` / `specDeliveredPts` say of the history with these writes in it. Core only.
-/
import Kap.Spec.C02
namespace Kap.C02.Udp
open Kap.C02

/-- does the line fail (malformed, or a time stamp outside the int64 nanosecond range)? -/
def lineFails : Line → Bool
  | .bad => true
  | .skip => false
  | .point _ ts => ts < minNanoTime || ts > maxNanoTime

/-- the point a line spells -/
def linePoint : Line → Option RawPoint
  | .point r ts => some { r with pl := { r.pl with time := ts } }
  | _ => none

/-- the points a datagram writes: `none` = it is dropped -/
def docPacket (dg : List Line) : Option (List RawPoint) :=
  if dg.any lineFails then none else some (dg.filterMap linePoint)

/-- the `WritePoints` calls the datagrams amount to, in order -/
def docCalls (dgs : List (List Line)) : List (List RawPoint) := dgs.filterMap docPacket

/-- … as operations of the history the routing spec is stated over -/
def udpHistory (db rp : String) (dgs : List (List Line)) : List Op := (docCalls dgs).map (.write db rp)

end Kap.C02.Udp
