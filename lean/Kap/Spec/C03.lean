/-
C03 — the property itself, over the plain history of one group's messages and what was emitted for each of
them. Nothing here knows about ring buffers, indexes, purging or insertion order.

Time windows (`period > 0`, `every ≥ 0`, message times non-decreasing), for a trace
`[(m₁, out₁), …, (mₙ, outₙ)]` of messages and the batch (if any) emitted when each was received:

* DUE TIME. Before any batch was emitted the window is due at `firstDue`: `t₀ + every`, under `align` the
  greatest multiple of `every` not after that; with `fillPeriod` `t₀ + period`, under `align` the least
  multiple of `every` strictly after that (`t₀` = time of the group's first message; multiples of `every`
  are counted from Go's zero time, year 1). After a batch triggered by a message with time `t` the window
  is due at `t + every`, under `align` the greatest multiple of `every` not after that. (`every = 0`:
  due at `t₀` resp. `t₀ + period`, afterwards at the time of the last trigger, i.e. on every message.)
* SCHEDULE. A message emits a batch iff its time has reached the due time; at most one batch per message.
* END TIME. The batch's end time `T` is the due time (`every = 0`: the time of the triggering message).
* CONTENT. The batch holds exactly the points received so far (the triggering message included) with
  `T - period ≤ t < T` (`every = 0`: `T - period < t ≤ T`), in arrival order.

Count windows (`periodCount ≥ 1`, `everyCount ≥ 1`): a batch is emitted after the k-th point iff
`k = first + j·everyCount` (`first = periodCount` with `fillPeriod`, else `everyCount`); it holds exactly the
last `min k periodCount` points in arrival order and is stamped with the time of the last one.
Core Lean only.
-/
import Kap.Model.C03
namespace Kap.C03

/-- one observed step: the message and the batch emitted when it was received -/
abbrev Trace := List (Msg × Option Batch)

/-- the points among the messages, in arrival order -/
def received : List Msg → List Pt
  | [] => []
  | .point p :: ms => p :: received ms
  | .barrier _ :: ms => received ms

/-- message times never decrease (the property's hypothesis on the input) -/
def nondecreasing : List Int → Bool
  | a :: b :: rest => decide (a ≤ b) && nondecreasing (b :: rest)
  | _ => true

/-- greatest multiple of `d` (counted from Go's zero time) that is `≤ x`; `d > 0` -/
def floorMultiple (x d : Int) : Int := (x + goEpochOffset) / d * d - goEpochOffset

/-- least multiple of `d` (counted from Go's zero time) that is `> x`; `d > 0` -/
def nextMultiple (x d : Int) : Int := ((x + goEpochOffset) / d + 1) * d - goEpochOffset

/-- the due time before anything was emitted -/
def firstDue (c : TCfg) (t0 : Int) : Int :=
  if c.every = 0 then (if c.fill then t0 + c.period else t0)
  else match c.fill, c.align with
    | false, false => t0 + c.every
    | false, true => floorMultiple (t0 + c.every) c.every
    | true, false => t0 + c.period
    | true, true => nextMultiple (t0 + c.period) c.every

/-- the due time after a batch triggered by a message with time `t` -/
def dueAfter (c : TCfg) (t : Int) : Int :=
  if c.every = 0 then t
  else if c.align then floorMultiple (t + c.every) c.every else t + c.every

/-- time of the last message of the trace that emitted a batch -/
def lastTrigger : Trace → Option Int
  | [] => none
  | (m, o) :: rest =>
    match lastTrigger rest with
    | some t => some t
    | none => if o.isSome then some m.t else none

/-- the due time after the trace `pre` (of a window whose first message had time `t0`) -/
def due (c : TCfg) (t0 : Int) (pre : Trace) : Int :=
  match lastTrigger pre with
  | none => firstDue c t0
  | some t => dueAfter c t

/-- required content of a window with end time `T` given the points received so far -/
def specContent (c : TCfg) (T : Int) (hist : List Pt) : List Pt :=
  if c.every = 0 then hist.filter (fun q => decide (T - c.period < q.t) && decide (q.t ≤ T))
  else hist.filter (fun q => decide (T - c.period ≤ q.t) && decide (q.t < T))

/-- Which clause of the property (if any) the step `(m, out)` after the trace `pre` violates. -/
def stepViolation (c : TCfg) (t0 : Int) (pre : Trace) (m : Msg) (out : Option Batch) : Option String :=
  let d := due c t0 pre
  match out with
  | none => if m.t < d then none else some "schedule-missed-emit"
  | some b =>
    if m.t < d then some "schedule-early-emit"
    else
      let T := if c.every = 0 then m.t else d
      if b.tmax ≠ T then some "end-time"
      else if b.pts ≠ specContent c T (received (pre.map (·.1) ++ [m])) then some "content-exact"
      else none

/-- first violated clause over a whole trace, with the index of the offending step -/
def traceViolationFrom (c : TCfg) (t0 : Int) : Trace → Trace → Option (Nat × String)
  | _, [] => none
  | pre, (m, o) :: rest =>
    match stepViolation c t0 pre m o with
    | some cl => some (pre.length, cl)
    | none => traceViolationFrom c t0 (pre ++ [(m, o)]) rest

def traceViolation (c : TCfg) (tr : Trace) : Option (Nat × String) :=
  match tr with
  | [] => none
  | (m, _) :: _ => traceViolationFrom c m.t [] tr

/-- The time-window property on one group's trace. -/
def TimeWindowOK (c : TCfg) (tr : Trace) : Prop :=
  ∀ (k : Nat) (m0 : Msg) (o0 : Option Batch) (m : Msg) (o : Option Batch),
    tr[0]? = some (m0, o0) → tr[k]? = some (m, o) →
    stepViolation c m0.t (tr.take k) m o = none

/-! ### count windows -/

/-- the last `n` elements -/
def lastN (n : Nat) (l : List Pt) : List Pt := l.drop (l.length - n)

/-- Is a batch due after the `k`-th point (k ≥ 1)? -/
def countDue (period every : Nat) (fill : Bool) (k : Nat) : Bool :=
  let first := if fill then period else every
  decide (k ≥ first) && decide ((k - first) % every = 0)

/-- what must be emitted after `ps` (non-empty) has been received -/
def specCountOut (period every : Nat) (fill : Bool) (ps : List Pt) : Option Batch :=
  if countDue period every fill ps.length then
    let pts := lastN (min ps.length period) ps
    some { tmax := (pts.getLast?.getD nilPt).t, pts := pts }
  else none

/-- first step of an observed count-window run that differs from the requirement -/
def countViolationFrom (period every : Nat) (fill : Bool) : List Pt → List (Pt × Option Batch) → Option (Nat × String)
  | _, [] => none
  | pre, (p, o) :: rest =>
    let want := specCountOut period every fill (pre ++ [p])
    if o = want then countViolationFrom period every fill (pre ++ [p]) rest
    else
      let cl := match o, want with
        | none, some _ => "count-missed-emit"
        | some _, none => "count-early-emit"
        | _, _ => "count-content"
      some (pre.length, cl)

end Kap.C03
