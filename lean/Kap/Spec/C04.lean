/-
C04 — the property itself: TICKscript's typed reference semantics of a lambda expression against one point,
written directly from the language documentation and independently of how the evaluator works (no node
evaluators, no `Type()`/`EvalX` split, no specialisation, no operator table, no incremental function state).

* `binType`   — the documented operator × type × type matrix and its result types: logical operators on
  booleans; `== !=` on two values of one type (bool, int, float, string, duration) and on int/float mixes;
  `< <= > >=` likewise without bool; `=~ !~` string against regex; `+` on two ints, floats, strings,
  durations; `-` on two ints, floats, durations; `*` on two ints or floats and duration×int/float either way;
  `/` on two ints or floats, duration by int, float or duration; `%` on ints. NO int/float arithmetic.
* `refBinop`  — what the operator computes on two VALUES (64-bit two's complement integers, IEEE floats
  through the `FOps` interface, byte-wise string order, a zero divisor of an integer or duration division
  is an error).
* `typeRef`   — the type of an expression under the field types of the point (`none` = ill-typed).
* `valRef`    — big-step evaluation, left to right, AND/OR short-circuit, function arguments eagerly; a type
  mismatch, an undefined or missing reference used as a value, an arithmetic fault, a rejected function
  call are an error for that point. Stateful functions are defined on the HISTORY of their earlier
  arguments in this group: `count()` = number of calls so far, `spread(x)` = max − min over all arguments so
  far, `sigma(x)` = distance from the running mean in running standard deviations (Welford), recomputed
  from the whole history.
* `expect`    — what an evaluation of a point may answer, given the reference.
Core Lean only.
-/
import Kap.Model.C04
namespace Kap.C04

/-- the documented matrix: result type of `l op r`, `none` = the operator does not apply to these types. -/
def binType (op : BOp) (l r : Ty) : Option Ty :=
  let num (t : Ty) : Bool := t == .int || t == .float
  let same (ts : List Ty) : Bool := l == r && ts.contains l
  match op with
  | .and | .or => if l == .bool && r == .bool then some .bool else none
  | .eq | .ne =>
    if same [.bool, .int, .float, .string, .duration] || (num l && num r) then some .bool else none
  | .lt | .le | .gt | .ge =>
    if same [.int, .float, .string, .duration] || (num l && num r) then some .bool else none
  | .reEq | .reNe => if l == .string && r == .regex then some .bool else none
  | .plus => if same [.int, .float, .string, .duration] then some l else none
  | .minus => if same [.int, .float, .duration] then some l else none
  | .mult =>
    if same [.int, .float] then some l
    else if (l == .duration && num r) || (num l && r == .duration) then some .duration else none
  | .div =>
    if same [.int, .float] then some l
    else if l == .duration && num r then some .duration
    else if l == .duration && r == .duration then some .int else none
  | .mod => if l == .int && r == .int then some .int else none

section
variable {F : Type} (ops : FOps F) (reMatch : Bytes → Bytes → Option Bool)

/-- ordering / equality of two values of comparable types; int/float mixes compare as floats. -/
def refCmp (ci : Int → Int → Bool) (cf : F → F → Bool) (cs : Bytes → Bytes → Bool) (cb : Option (Bool → Bool → Bool)) :
    Value F → Value F → Outcome (Value F)
  | .int a, .int b => .ok (.bool (ci a b))
  | .dur a, .dur b => .ok (.bool (ci a b))
  | .float a, .float b => .ok (.bool (cf a b))
  | .int a, .float b => .ok (.bool (cf (ops.ofInt a) b))
  | .float a, .int b => .ok (.bool (cf a (ops.ofInt b)))
  | .str a, .str b => .ok (.bool (cs a b))
  | .bool a, .bool b => (match cb with | some f => .ok (.bool (f a b)) | none => .err)
  | _, _ => .err

/-- integer division and remainder truncate towards zero; a zero divisor is an error. -/
def refDiv (a b : Int) : Outcome Int := if b = 0 then .err else .ok (wrap (Int.tdiv a b))
def refMod (a b : Int) : Outcome Int := if b = 0 then .err else .ok (wrap (Int.tmod a b))

/-- what `l op r` computes on two values. -/
def refBinop (op : BOp) (l r : Value F) : Outcome (Value F) :=
  match op with
  | .and => (match l, r with | .bool a, .bool b => .ok (.bool (a && b)) | _, _ => .err)
  | .or => (match l, r with | .bool a, .bool b => .ok (.bool (a || b)) | _, _ => .err)
  | .eq => refCmp ops (fun a b => decide (a = b)) ops.eq (fun a b => decide (a = b)) (some (fun a b => a == b)) l r
  | .ne => refCmp ops (fun a b => decide (a ≠ b)) ops.ne (fun a b => decide (a ≠ b)) (some (fun a b => a != b)) l r
  | .lt => refCmp ops (fun a b => decide (a < b)) ops.lt (fun a b => decide (a < b)) none l r
  | .le => refCmp ops (fun a b => decide (a ≤ b)) ops.le (fun a b => decide (a ≤ b)) none l r
  | .gt => refCmp ops (fun a b => decide (a > b)) ops.gt (fun a b => decide (a > b)) none l r
  | .ge => refCmp ops (fun a b => decide (a ≥ b)) ops.ge (fun a b => decide (a ≥ b)) none l r
  | .reEq => (match l, r with
    | .str s, .regex p => (match reMatch p s with | some b => .ok (.bool b) | none => .err)
    | _, _ => .err)
  | .reNe => (match l, r with
    | .str s, .regex p => (match reMatch p s with | some b => .ok (.bool (!b)) | none => .err)
    | _, _ => .err)
  | .plus => (match l, r with
    | .int a, .int b => .ok (.int (wrap (a + b)))
    | .float a, .float b => .ok (.float (ops.add a b))
    | .str a, .str b => .ok (.str (a ++ b))
    | .dur a, .dur b => .ok (.dur (wrap (a + b)))
    | _, _ => .err)
  | .minus => (match l, r with
    | .int a, .int b => .ok (.int (wrap (a - b)))
    | .float a, .float b => .ok (.float (ops.sub a b))
    | .dur a, .dur b => .ok (.dur (wrap (a - b)))
    | _, _ => .err)
  | .mult => (match l, r with
    | .int a, .int b => .ok (.int (wrap (a * b)))
    | .float a, .float b => .ok (.float (ops.mul a b))
    | .dur a, .int b => .ok (.dur (wrap (a * b)))
    | .int a, .dur b => .ok (.dur (wrap (a * b)))
    | .dur a, .float b => .ok (.dur (ops.toI64 (ops.mul (ops.ofInt a) b)))
    | .float a, .dur b => .ok (.dur (ops.toI64 (ops.mul a (ops.ofInt b))))
    | _, _ => .err)
  | .div => (match l, r with
    | .int a, .int b => (match refDiv a b with | .ok v => .ok (.int v) | _ => .err)
    | .float a, .float b => .ok (.float (ops.div a b))
    | .dur a, .int b => (match refDiv a b with | .ok v => .ok (.dur v) | _ => .err)
    | .dur a, .float b => .ok (.dur (ops.toI64 (ops.div (ops.ofInt a) b)))
    | .dur a, .dur b => (match refDiv a b with | .ok v => .ok (.int v) | _ => .err)
    | _, _ => .err)
  | .mod => (match l, r with
    | .int a, .int b => (match refMod a b with | .ok v => .ok (.int v) | _ => .err)
    | _, _ => .err)
end

/-- history of one instance each of the stateful functions: how often `count` was called, and the arguments `sigma`
and `spread` were called with, oldest first. -/
structure HistBase (F : Type) where
  counts : Nat := 0
  sigmas : List F := []
  spreads : List F := []

/-- history of ONE GROUP: of the stateful functions of the expression itself and, separately ("an independent state
for this expression"), of those inside each lambda node nested in it — every group has its own. -/
structure Hist (F : Type) extends HistBase F where
  lams : Nat → HistBase F := fun _ => {}

/-- the history the body of lambda node `i` sees, and the way back (as `FnState.enter/leave`, but per group). -/
def Hist.enter {F} (h : Hist F) (i : Nat) : Hist F := { toHistBase := h.lams i, lams := h.lams }
def Hist.leave {F} (h inner : Hist F) (i : Nat) : Hist F :=
  { toHistBase := h.toHistBase, lams := fun j => if j = i then inner.toHistBase else inner.lams j }

section
variable {F : Type} (ctx : Ctx F)

/-- one step of Welford's running (n, mean, M2). -/
def welford (acc : F × F × F) (y : F) : F × F × F :=
  let ops := ctx.ops
  let n := ops.add acc.1 (ops.ofInt 1)
  let delta := ops.sub y acc.2.1
  let mean := ops.add acc.2.1 (ops.div delta n)
  (n, mean, ops.add acc.2.2 (ops.mul delta (ops.sub y mean)))

/-- `sigma` from the whole history: Welford's running mean / M2 over all arguments, then the distance of the
last argument from the mean in standard deviations (0 while fewer than two values or zero variance). -/
def refSigma (xs : List F) (x : F) : F :=
  let ops := ctx.ops
  let acc := (xs ++ [x]).foldl (welford ctx) (ops.ofInt 0, ops.ofInt 0, ops.ofInt 0)
  let var := ops.div acc.2.2 (ops.sub acc.1 (ops.ofInt 1))
  if ops.lt acc.1 (ops.ofInt 2) || ops.eq var (ops.ofInt 0) then ops.ofInt 0
  else ops.div (ops.abs (ops.sub x acc.2.1)) (ops.sqrt var)

/-- `spread` from the whole history: running maximum minus running minimum. -/
def refSpread (xs : List F) (x : F) : F :=
  let ops := ctx.ops
  let all := xs ++ [x]
  ops.sub (all.foldl (fun m y => if ops.gt y m then y else m) ops.negInf)
          (all.foldl (fun m y => if ops.lt y m then y else m) ops.posInf)

/-- a builtin applied to argument values. -/
def refCall (fn : String) (args : List (Value F)) (h : Hist F) : Outcome (Value F) × Hist F :=
  if fn = "count" then (.ok (.int (wrap (h.counts + 1))), { h with counts := h.counts + 1 })
  else if fn = "sigma" then
    match args with
    | [.float x] => (.ok (.float (refSigma ctx h.sigmas x)), { h with sigmas := h.sigmas ++ [x] })
    | _ => (.err, h)
  else if fn = "spread" then
    match args with
    | [.float x] => (.ok (.float (refSpread ctx h.spreads x)), { h with spreads := h.spreads ++ [x] })
    | _ => (.err, h)
  else if fn = "if" then
    match args with
    | [.bool c, a, b] => if a.ty = b.ty then (.ok (if c then a else b), h) else (.err, h)
    | _ => (.err, h)
  else if fn = "isPresent" then
    match args with
    | [v] => (.ok (.bool (decide (v.ty ≠ .missing))), h)
    | _ => (.err, h)
  else
    -- deterministic stateless builtins by their documented meaning (`Lib.builtin`); transcendental math, regex,
    -- time-zone, formatting/parsing of floats and durations: the library's value (carried in the op line)
    match Lib.builtin ctx.ops fn args with
    | some (some v) => (.ok v, h)
    | some none => (.err, h)
    | none =>
      if Lib.oracleFns.contains fn then
        match ctx.call fn args with
        | some (.ok v) => (.ok v, h)
        | _ => (.err, h)
      else (.err, h)

variable (σ : Scope F)

/-- the type of an expression under the types of the point's fields; `none` = ill-typed. -/
def typeRef : Expr F → Option Ty
  | .lit v => some v.ty
  | .ref n => (σ.get n).map Value.ty
  | .un .not e => if typeRef e = some .bool then some .bool else none
  | .un .neg e =>
    match typeRef e with
    | some .int => some .int
    | some .float => some .float
    | some .duration => some .duration
    | _ => none
  | .bin op l r =>
    match typeRef l, typeRef r with
    | some tl, some tr => binType op tl tr
    | _, _ => none
  | .call0 fn => sigType ctx fn []
  | .call1 fn a => (typeRef a).bind (fun ta => sigType ctx fn [ta])
  | .call2 fn a b => (typeRef a).bind (fun ta => (typeRef b).bind (fun tb => sigType ctx fn [ta, tb]))
  | .call3 fn a b c =>
    (typeRef a).bind (fun ta => (typeRef b).bind (fun tb => (typeRef c).bind (fun tc => sigType ctx fn [ta, tb, tc])))
  | .call4 fn a b c d =>
    (typeRef a).bind (fun ta => (typeRef b).bind (fun tb => (typeRef c).bind (fun tc => (typeRef d).bind (fun td =>
      sigType ctx fn [ta, tb, tc, td]))))
  | .callMany _ => none
  | .lam _ e =>
    -- a lambda used as a value is its body; it cannot yield a time (`EvalLambdaNode.EvalTime` always refuses)
    match typeRef e with
    | some .time => none
    | t => t

/-- big-step evaluation against one point. -/
def valRef : Expr F → Hist F → Outcome (Value F) × Hist F
  | .lit v, h => (.ok v, h)
  | .ref n, h => (match σ.get n with | some v => .ok v | none => .err, h)
  | .un .not e, h =>
    match valRef e h with
    | (.ok (.bool b), h') => (.ok (.bool (!b)), h')
    | (.ok _, h') => (.err, h')
    | r => r
  | .un .neg e, h =>
    match valRef e h with
    | (.ok (.int i), h') => (.ok (.int (wrap (-i))), h')
    | (.ok (.dur d), h') => (.ok (.dur (wrap (-d))), h')
    | (.ok (.float f), h') => (.ok (.float (ctx.ops.mul (ctx.ops.ofInt (-1)) f)), h')
    | (.ok _, h') => (.err, h')
    | r => r
  | .bin op l r, h =>
    match valRef l h with
    | (.ok vl, h1) =>
      (match op, vl with
       | .and, .bool false => (.ok (.bool false), h1)     -- short circuit
       | .or, .bool true => (.ok (.bool true), h1)
       | _, _ =>
         match valRef r h1 with
         | (.ok vr, h2) => (refBinop ctx.ops ctx.reMatch op vl vr, h2)
         | x => x)
    | x => x
  | .call0 fn, h => refCall ctx fn [] h
  | .call1 fn a, h =>
    match valRef a h with
    | (.ok va, h1) => refCall ctx fn [va] h1
    | x => x
  | .call2 fn a b, h =>
    match valRef a h with
    | (.ok va, h1) =>
      (match valRef b h1 with
       | (.ok vb, h2) => refCall ctx fn [va, vb] h2
       | x => x)
    | x => x
  | .call3 fn a b c, h =>
    match valRef a h with
    | (.ok va, h1) =>
      (match valRef b h1 with
       | (.ok vb, h2) =>
         (match valRef c h2 with
          | (.ok vc, h3) => refCall ctx fn [va, vb, vc] h3
          | x => x)
       | x => x)
    | x => x
  | .call4 fn a b c d, h =>
    match valRef a h with
    | (.ok va, h1) =>
      (match valRef b h1 with
       | (.ok vb, h2) =>
         (match valRef c h2 with
          | (.ok vc, h3) =>
            (match valRef d h3 with
             | (.ok vd, h4) => refCall ctx fn [va, vb, vc, vd] h4
             | x => x)
          | x => x)
       | x => x)
    | x => x
  | .callMany _, h => (.err, h)
  | .lam i e, h =>
    -- the body, with the stateful functions of THIS lambda (of this group)
    match valRef e (h.enter i) with
    | (r, inner) => (r, h.leave inner i)

/-- does the expression call a stateful function? -/
def stateful : Expr F → Bool
  | .un _ e => stateful e
  | .bin _ l r => stateful l || stateful r
  | .call0 fn => fn == "count" || fn == "sigma" || fn == "spread"
  | .call1 fn a => fn == "count" || fn == "sigma" || fn == "spread" || stateful a
  | .call2 fn a b => fn == "count" || fn == "sigma" || fn == "spread" || stateful a || stateful b
  | .call3 fn a b c => fn == "count" || fn == "sigma" || fn == "spread" || stateful a || stateful b || stateful c
  | .call4 fn a b c d =>
    fn == "count" || fn == "sigma" || fn == "spread" || stateful a || stateful b || stateful c || stateful d
  | .callMany fn => fn == "count" || fn == "sigma" || fn == "spread"
  | .lam _ e => stateful e
  | _ => false

/-- does a lambda node nested in the expression call a stateful function in its body? (the expressions the recorded
finding `nested-lambda-state-shared` is about) -/
def statefulLam : Expr F → Bool
  | .un _ e => statefulLam e
  | .bin _ l r => statefulLam l || statefulLam r
  | .call1 _ a => statefulLam a
  | .call2 _ a b => statefulLam a || statefulLam b
  | .call3 _ a b c => statefulLam a || statefulLam b || statefulLam c
  | .call4 _ a b c d => statefulLam a || statefulLam b || statefulLam c || statefulLam d
  | .lam _ e => stateful e
  | _ => false

/-- What an evaluation of one point may answer.
* `exactly o`  — well-typed point: the reference outcome (a value, or an error for a run-time fault);
* `errOr v`    — the point is ill-typed somewhere, but left-to-right evaluation with short circuit never
  reaches the ill-typed part and yields `v`: an implementation may report the type error or `v`;
* `mustErr`    — ill-typed, and evaluation fails too. -/
inductive Expect (F : Type) where
  | exactly (o : Outcome (Value F))
  | errOr (v : Value F)
  | mustErr

/-- The reference answer when the point is asked for a value of type `want` (`none` = of its own type, as
`Expression.Eval` does; only bool/int/float/string/duration results are values of a lambda). Also returns the
history afterwards — `none` when the property does not fix it (an ill-typed point of an expression with
stateful functions may or may not have stepped them). -/
def expect (e : Expr F) (want : Option Ty) (h : Hist F) : Expect F × Option (Hist F) :=
  let isVal (t : Ty) : Bool := t == .int || t == .float || t == .string || t == .bool || t == .duration
  let keep : Option (Hist F) := if stateful e then none else some h
  match typeRef ctx σ e with
  | some t =>
    if isVal t && (want.getD t == t) then
      let (o, h') := valRef ctx σ e h
      (.exactly o, match o with | .ok _ => some h' | _ => keep)
    else (.mustErr, keep)
  | none =>
    match valRef ctx σ e h with
    | (.ok v, _) => if isVal v.ty && (want.getD v.ty == v.ty) then (.errOr v, keep) else (.mustErr, keep)
    | _ => (.mustErr, keep)

end
/-! ### points -/

/-- What a reference denotes at a point: `time` is the point's time, any other name its field of that name,
or else its tag of that name (a string), or else the missing value. A name that is both a field and a tag is
ambiguous (`none`). -/
def denote {F : Type} (p : Point F) (n : String) : Option (Value F) :=
  if n = "time" then some (.time p.time) else
  match (p.fields.find? (fun x => x.1 == n)), (p.tags.find? (fun x => x.1 == n)) with
  | some _, some _ => none
  | some f, none => some f.2
  | none, some t => some (.str t.2)
  | none, none => some .missing

/-- The reference answer for a predicate evaluated against a point: an ambiguous reference is an error for
that point; otherwise the references are bound to what they denote and the predicate is evaluated as a boolean. -/
def expectPoint {F : Type} (ctx : Ctx F) (e : Expr F) (p : Point F) (h : Hist F) : Expect F × Option (Hist F) :=
  if (refsOf e).any (fun n => (denote p n).isNone) then (.mustErr, some h)
  else expect ctx ((refsOf e).filterMap (fun n => (denote p n).map (fun v => (n, v)))) e (some .bool) h

end Kap.C04
