/-
C04 — what it MEANS for a regex of the defined fragment (Model/C04Re.lean: literal bytes and the text anchors) to
match a string, written as the textbook semantics of an unanchored regex search and independently of the scanning
matcher `Re.matchB`:

  the pattern matches `s`  iff  `s` can be cut into `l ++ r` such that the atoms match, one after the other, the
  text that starts at this cut — a byte atom consumes exactly that byte, `^`/`\A` holds only where nothing precedes
  the position, `$`/`\z` only where nothing follows it.

Core Lean only.
-/
import Kap.Model.C04Re
namespace Kap.C04.Re

/-- `Der as l r`: the atoms `as` match at the position of a text that has `l` before it and `r` from it on. -/
inductive Der : List Atom → Bytes → Bytes → Prop where
  | nil (l r : Bytes) : Der [] l r
  | bol (as : List Atom) (r : Bytes) : Der as [] r → Der (.bol :: as) [] r
  | eol (as : List Atom) (l : Bytes) : Der as l [] → Der (.eol :: as) l []
  | ch (b : UInt8) (as : List Atom) (l r : Bytes) : Der as (l ++ [b]) r → Der (.ch b :: as) l (b :: r)

/-- the regex with these atoms matches the string `s` (unanchored search, as `=~` does). -/
def Matches (as : List Atom) (s : Bytes) : Prop := ∃ l r, s = l ++ r ∧ Der as l r

/-- the atoms of a literal. -/
def lits (w : Bytes) : List Atom := w.map Atom.ch

end Kap.C04.Re
