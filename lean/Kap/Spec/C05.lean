/-
C05 — the property itself, as decidable checks on what the harness OBSERVED the real code do
(properties.jsonl: "defining it returns either a task or an error: it never panics, hangs, leaks
goroutines or terminates the process … a running task reports an error for that point/peer at most and
keeps processing subsequent points; the process and all other tasks are unaffected").

Nothing here looks at the scanner's state machine, the recover shapes or the UDF automaton of the model:
* a lexer run must END (channel closed), and its tokens must be a PARTITION of the input: in order,
  inside the input, separated by white space only, closed by exactly one EOF (at the end of the input) or
  error token;
* a definition entry point (Parse, ParseLambda, Format, CreatePipeline, NewTask, NewTemplate, JSON
  unmarshalling) answers `ok` or `err` — not a panic, not a dead or hung process — and leaves no goroutine
  behind;
* a node whose run function panics or fails yields a task error, a node that returns normally yields none,
  and the process survives;
* whatever bytes / responses a UDF peer sends, the reader ends with end-of-stream or an error;
* a bad data point costs at most that point: every later good point still reaches the sink, the task does
  not die, a bystander task sees everything.
Core Lean only. Each check returns `none` when the property holds of the observation, else the violated
clause and a detail string.
-/
import Kap.Model.C05
namespace Kap.C05

abbrev SpecResult := Option (String × String)

/-- What was observed of one run of the scanner goroutine. -/
inductive LexObs where
  | toks (ts : List Tok) (closed : Bool)
  | died (how : String)         -- "crash": the process died; "hang": no answer in time
deriving Repr, Inhabited

/-- Every rune of `bs`, decoded front to back, is white space. -/
def spaceOnly (c : Ctx) : Nat → Bytes → Bool
  | _, [] => true
  | 0, _ => false
  | k + 1, bs =>
    let d := decodeRune bs
    isSpace c (d.1 : Int) && spaceOnly c k (bs.drop (max d.2 1))

/-- Walk the tokens with a cursor `at` (end of the previous token). -/
def partitionFrom (c : Ctx) (at_ : Nat) : List Tok → SpecResult
  | [] => some ("ends-with-eof-or-error", "token stream ended without EOF or error token")
  | t :: rest =>
    let n := c.inp.length
    if t.pos < at_ then some ("tokens-ordered", s!"token at {t.pos} starts before {at_}")
    else if t.pos > n then some ("tokens-in-bounds", s!"token at {t.pos} beyond input length {n}")
    else
      let gap := (c.inp.drop at_).take (t.pos.toNat - at_)
      if !spaceOnly c (gap.length + 1) gap then some ("tokens-partition-input", s!"non-space input skipped before {t.pos}")
      else match t.len with
        | none =>   -- error token: must be the last one
          if t.typ != tError then some ("tokens-in-bounds", "token without text that is not an error token")
          else if rest.isEmpty then none else some ("ends-with-eof-or-error", "tokens after the error token")
        | some len =>
          if len < 0 ∨ t.pos + len > n then some ("tokens-in-bounds", s!"token [{t.pos},{t.pos + len}) outside input of length {n}")
          else if t.typ == tError then some ("tokens-in-bounds", "error token with text")
          else if t.typ == tEOF then
            if !rest.isEmpty then some ("ends-with-eof-or-error", "tokens after EOF")
            else if len != 0 ∨ t.pos != n then some ("tokens-partition-input", s!"EOF token at {t.pos} len {len}, input length {n}")
            else none
          else partitionFrom c (t.pos + len).toNat rest

def lexSpec (c : Ctx) : LexObs → SpecResult
  | .died how => some (if how == "hang" then "terminates" else "process-survives", s!"lexer run: {how}")
  | .toks ts closed =>
    if !closed then some ("terminates", s!"lexer still running after {ts.length} tokens")
    else partitionFrom c 0 ts

/-- A definition entry point: `res` ∈ ok | err | panic | crash | hang, `leak` = goroutines left behind. -/
def defineSpec (res : String) (leak : Nat) : SpecResult :=
  if res == "crash" then some ("process-survives", "the process died")
  else if res == "hang" then some ("terminates", "no answer in time")
  else if res == "panic" then some ("returns-task-or-error", "panicked")
  else if res != "ok" && res != "err" then some ("returns-task-or-error", s!"unexpected result {res}")
  else if leak != 0 then some ("no-goroutine-leak", s!"{leak} goroutine(s) left behind")
  else none

/-- The node runner: `body` is what the node's run function did. -/
def nodeSpec (body : Body) (res : String) : SpecResult :=
  if res == "crash" then some ("node-panic-becomes-task-error", "the process died")
  else if res == "hang" then some ("terminates", "no answer in time")
  else
    let want := match body with
      | .ret false => "ok"
      | _ => "err"
    if res != want then some ("node-panic-becomes-task-error", s!"node reported {res}, expected {want}") else none

/-- UDF peer: `finals` are the tokens observed; anything but a panic / dead process is acceptable. -/
def peerSpec (obs : List String) : SpecResult :=
  if obs.contains "crash" then some ("process-survives", "the process died on a peer message")
  else if obs.contains "hang" then some ("terminates", "no answer in time")
  else if obs.contains "panic" then some ("peer-error-at-most", "panicked on a peer message")
  else none

/-- Calls of Info / Init / Snapshot / Restore while the UDF peer sends whatever it likes, asked for or not.
`results` = (call, outcome) with outcome ∈ g<tag> (returned a response) | abort (returned an error) | blocked (still
waiting for a peer that does not answer) | none | panic. A call may fail; the goroutine that made it must not
panic (Snapshot() runs on the task's snapshotter goroutine: its panic is the death of the process). -/
def rrSpec (obs : List String) (results : List (String × String)) : SpecResult :=
  match peerSpec obs with
  | some r => some r
  | none =>
    match results.find? (fun r => r.2 == "panic") with
    | some r => some ("peer-error-at-most", s!"the goroutine that called the {r.1} request panicked on a response of the peer")
    | none => none

/-- A data point on its way to a UDF: every one of the `sent` points must come out as a request
(`written`), whatever its field types. -/
def udfWriteSpec (sent written : Nat) (obs : List String) : SpecResult :=
  match peerSpec obs with
  | some r => some r
  | none => if written != sent then some ("keeps-processing-after-bad-point", s!"{written} of {sent} points reached the UDF") else none

/-- Task-level liveness. `canaries` of `wantCanaries` good points reached the sink of the task under test,
`taskErr` = the task ended with an error, `bystander` of `wantAll` points reached the other task's sink.
`nodePanics` = the case where a node implementation itself panics (then the task MUST report an error, and
only the process and the bystander must be unaffected). -/
def liveSpec (nodePanics : Bool) (canaries wantCanaries taskErr bystander wantAll : Nat) : SpecResult :=
  if bystander != wantAll then some ("other-tasks-unaffected", s!"bystander task saw {bystander} of {wantAll} points")
  else if nodePanics then
    if taskErr != 1 then some ("node-panic-becomes-task-error", "a panicking node did not surface as a task error") else none
  else if canaries != wantCanaries then some ("keeps-processing-after-bad-point", s!"{canaries} of {wantCanaries} good points reached the sink")
  else if taskErr != 0 then some ("bad-point-does-not-kill-task", "the task ended with an error")
  else none

end Kap.C05
