/-
C06 — the property itself, over plain data, independent of how the code computes group ids or stores
per-group state.

(1) IDENTITY. Two points belong to the same group exactly when they agree on the measurement (if grouping by
    measurement) and on every group-by tag value (`sameGroup`). Whatever identifier the implementation assigns
    must induce exactly this relation (`idsRespectGroups`). The value of a tag the point does not carry is the
    empty string (InfluxDB has no empty tag values; Go reads a missing map key as "").
    The group-by tags of a point are the configured dimensions, or — with `*` — all tag keys of the point
    except the excluded ones (`dimsOk`). A message that has passed further nodes is still grouped by measurement if
    the task asked for it, and by the configured tags minus the ones a `delete` removed (`groupingOkAfter`).
(2) ISOLATION. What a task emits for group g is the same whether or not points of other groups are interleaved:
    the sub-sequence of the full run's output that belongs to g equals the output of a run fed only g's points
    (`isolationHolds`), and nothing is emitted for a group that has no input.

Deviation clauses of the recorded findings are at the end (`devDelimiter`).
Core Lean only.
-/
import Kap.Model.C06
namespace Kap.C06

/- `GPoint` (a point as grouping sees it: its measurement, its tags, and the grouping in force for it) is plain data
shared with the model: `Kap.C06.GPoint` in Kap/Model/C06.lean. -/

/-- THE IDENTITY RELATION of the property. -/
def sameGroup (p q : GPoint) : Bool :=
  p.byName == q.byName && p.dims == q.dims &&
  (!p.byName || p.name == q.name) &&
  p.dims.all (fun d => tagVal p.tags d == tagVal q.tags d)

/-- Identifiers `ids` (one per point) identify groups: equal ids ⇔ same group, for every pair. -/
def idsRespectGroups : List (GPoint × String) → Bool
  | [] => true
  | (p, i) :: rest => rest.all (fun (q, j) => (i == j) == sameGroup p q) && idsRespectGroups rest

/-- first pair violating `idsRespectGroups` (for the verdict detail) -/
def firstBadPair : List (GPoint × String) → Option ((GPoint × String) × (GPoint × String))
  | [] => none
  | (p, i) :: rest =>
    match rest.find? (fun (q, j) => (i == j) != sameGroup p q) with
    | some qj => some ((p, i), qj)
    | none => firstBadPair rest

def sortedLe : List String → Bool
  | a :: b :: rest => decide (a ≤ b) && sortedLe (b :: rest)
  | _ => true

/-- strictly increasing: sorted and duplicate-free. -/
def sortedLt : List String → Bool
  | a :: b :: rest => decide (a < b) && sortedLt (b :: rest)
  | _ => true

/-- The group-by tags `od` the implementation used for a point are the configured ones, each ONCE and in order: one
group has one dimension list, hence one spelling of its id, whatever the script repeats or permutes. -/
def dimsOk (star : Bool) (dims excl : List String) (tags : Tags) (od : List String) : Bool :=
  let want := if star then (tags.map (·.1)).filter (fun t => !excl.contains t) else dims
  od.all (fun t => want.contains t) && want.all (fun t => od.contains t) && sortedLt od

/-- GROUPING BEHIND A STATELESS STAGE. `before` / `after` = (grouped by measurement?, group-by tags) a message carries
before and behind the stage (`none` = a node that does not regroup at all: windows, aggregates, alert, eval, …):
* a node that does not regroup leaves the grouping as it is — in particular "grouped by measurement" SURVIVES it;
* `delete` of tags: still grouped by measurement iff it was; the group-by tags are exactly the previous ones that were
  not deleted, in order, each once;
* a further named `groupBy`: the group-by tags are the newly configured ones; grouped by measurement if this groupBy
  asks for it, and not if neither this nor the earlier one did (whether an EARLIER by-measurement survives a later groupBy
  that does not ask for it is left open: the documentation of `byMeasurement` and the code disagree, see the assumptions in checks/C06.json);
* `default` / `eval` writing a tag: grouping unchanged (the point may move to another group through the new value). -/
def groupingOkAfter (st : Option Stage) (before after : Bool × List String) : Bool :=
  match st with
  | none => after == before
  | some (.delete del) =>
    after.1 == before.1 &&
    after.2.all (fun d => before.2.contains d && !del.contains d) &&
    before.2.all (fun d => del.contains d || after.2.contains d) && sortedLt after.2
  | some (.groupBy b dims) =>
    (if b then after.1 else (before.1 || !after.1)) && dimsOk false dims [] [] after.2
  | some (.defaultTag _ _) | some (.evalTag _ _) => after == before

/-- An emitted message as observed at the sink: the group key it carries and its full rendering. -/
structure ObsMsg where
  key : String
  tok : String
deriving Repr, Inhabited, DecidableEq

/-- ISOLATION for one group. -/
def isolatedFor (full : List ObsMsg) (g : String) (solo : List ObsMsg) : Bool :=
  (full.filter (fun m => m.key == g)).map (·.tok) == solo.map (·.tok)

/-- THE ISOLATION PROPERTY on one relational experiment: `solo` has one entry per group of the input. -/
def isolationHolds (full : List ObsMsg) (solo : List (String × List ObsMsg)) : Bool :=
  solo.all (fun gs => isolatedFor full gs.1 gs.2) &&
  full.all (fun m => solo.any (fun gs => gs.1 == m.key))

/-! ### Deviation clause of finding `groupid-delimiter-collision`

`ToGroupID` joins `name "\n" d=v,d=v…` without escaping. A pair of points of DIFFERENT groups can receive the
same id only if one of them has a group-by value containing ',', a group-by tag name containing '=', or (when
grouping by measurement) a measurement containing the "\n" delimiter (theorem `groupid_injective_partial`). -/

def hasChar (c : Char) (s : String) : Bool := s.toList.contains c

def cleanPoint (p : GPoint) : Bool :=
  (!p.byName || !hasChar '\n' p.name) &&
  p.dims.all (fun d => !hasChar '=' d && !hasChar ',' (tagVal p.tags d))

/-- extra cleanliness needed when the two points carry DIFFERENT by-name flags (streams grouped differently and merged
by a union): the measurement of the by-name point `p` is non-empty and has no '=', and no group-by tag name of the
other point `q` contains "\n" (theorem `groupid_mixed_flags_partial`) -/
def cleanMixed (p q : GPoint) : Bool :=
  p.name != "" && !hasChar '=' p.name && q.dims.all (fun d => !hasChar '\n' d)

def cleanPair (p q : GPoint) : Bool :=
  cleanPoint p && cleanPoint q &&
  (if p.byName == q.byName then true else if p.byName then cleanMixed p q else cleanMixed q p)

/-- the recorded deviation: the two points are in different groups, the pair is not clean, and the transcribed
`ToGroupID` gives them the same id -/
def devDelimiter (p q : GPoint) : Bool :=
  !sameGroup p q && !cleanPair p q &&
  toGroupID p.byName p.name p.tags p.dims == toGroupID q.byName q.name q.tags q.dims

end Kap.C06
