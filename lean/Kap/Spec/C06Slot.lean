/-
C06 — spec for nodes that SERVE per-group results (httpOut): written on histories, without slots.

The property: what is served for a group is the same whether or not other groups' points (and deletions) are
interleaved with it. On a history of points and group deletions that is: the rows served under g's tags after the
full history are the rows served after g's own operations alone — which is `lastOf`: g's last value since its last
deletion, nothing when it has none.
-/
import Kap.Model.C06Slot
namespace Kap.C06.Slot

/-- g's last value since its last deletion, reading the history left to right -/
def lastL (g : String) (h : List Op) : Option Int :=
  h.foldl (fun acc op => match op with
    | .point g' v => if g' == g then some v else acc
    | .delete g' => if g' == g then none else acc) none

/-- rows that must be served under g's tags after history h -/
def expectFor (g : String) (h : List Op) : List Row := ((lastL g h).map (fun v => (g, v))).toList

/-- isolation on OBSERVED rows: `full` = rows served after the whole history, `solo` = rows served by the run fed
only g's operations; compared on the rows carrying g's tags -/
def isolatedObs (g : String) (full solo : List Row) : Bool :=
  full.filter (fun r => r.1 == g) == solo.filter (fun r => r.1 == g)

/-- no group's tags on a row of the solo run of another group; and nobody else's rows -/
def soloOnlyOwn (g : String) (solo : List Row) : Bool := solo.all (fun r => r.1 == g)

end Kap.C06.Slot
