/-
C07 — the property itself, over what an observer of ONE stop can see (independent of how the code works).

Statement (properties.jsonl): when a task is disabled / stopped or the daemon shuts down cleanly, every point
that was accepted before the stop is carried through the whole pipeline and handed to its outputs before the
task ends; nothing acknowledged is silently dropped. The stop itself always completes: all node and helper
goroutines of the task exit and no caller is left blocked — also when a node fails in the middle of the
pipeline (then the remaining nodes must still terminate).
-/
namespace Kap.C07

/-- What one stop looks like from outside. -/
structure Outcome where
  accepted : Nat          -- points whose write had been acknowledged when the stop was requested
  returned : Bool         -- the stop call returned (the caller is not left blocked)
  leaked : Nat            -- goroutines of the task still alive after the stop returned
  delivered : List Nat    -- per output of the pipeline: accepted points it had been handed when the stop returned
  nodeFailed : Bool       -- a node of the pipeline failed (its runF returned an error) during the run
  crashed : Bool := false -- a goroutine of the task panicked (the daemon dies)
  deriving DecidableEq, Repr, Inhabited

/-- Clause 1: the stop completes. -/
def stopCompletes (o : Outcome) : Bool := o.returned

/-- Clause 2: every goroutine of the task has exited. -/
def allExited (o : Outcome) : Bool := o.leaked = 0

/-- Clause 3: every accepted point was handed to every output before the task ended
(not demanded of a pipeline in which a node failed: there the property only asks for termination). -/
def allDelivered (o : Outcome) : Bool := o.nodeFailed || o.delivered.all (fun d => d = o.accepted)

/-- Clause 3 for an output with several DESTINATIONS (an InfluxDB output that writes every point back to the database /
retention policy it came from): `want[k]` = accepted points that belong to destination `k`, `handed[k]` = how many of
them destination `k` had been handed when the stop returned - a point is handed over when a write containing it was
ATTEMPTED at its destination, whether or not the destination accepted it (a rejected write is reported by the output -
logged and counted -, not silently dropped). The result lists the destinations that were not handed all their points
(empty = the clause holds); in particular a destination that rejects its writes must not cost the others theirs. -/
def unservedDestinations (want handed : List Nat) : List Nat :=
  (List.range want.length).filter (fun k => handed.getD k 0 < want.getD k 0)

/-- Clause 0: stopping a task never kills the daemon (a helper goroutine that outlives what it writes to —
e.g. a timer sending on an edge that was closed under it — panics the whole process). -/
def noCrash (o : Outcome) : Bool := !o.crashed

/-- The property. -/
def holds (o : Outcome) : Bool := noCrash o && stopCompletes o && allExited o && allDelivered o

/-- Name of the first clause that fails (for the driver's SPECFAIL line). -/
def failingClause (o : Outcome) : Option String :=
  if !noCrash o then some "no-crash"
  else if !stopCompletes o then some "stop-completes"
  else if !allExited o then some "all-goroutines-exit"
  else if !allDelivered o then some "accepted-points-delivered"
  else none

theorem failingClause_none_iff (o : Outcome) : failingClause o = none ↔ holds o = true := by
  unfold failingClause holds
  cases noCrash o <;> cases stopCompletes o <;> cases allExited o <;> cases allDelivered o <;> simp

/-! ### Inputs (what the check varies) and the recorded deviations (known findings)

A deviation clause is a decidable predicate on the INPUT of a case; the driver accepts a violation as a known
finding only when the clause holds, the violated clause is the one the finding is about, and the observed
outcome lies within what the model predicts for that input. -/

inductive StopKind where | task | delete | close
  deriving DecidableEq, Repr, Inhabited

/-- Schedule classes the harness realises. -/
inductive Class where
  | drained     -- the stop is requested after every output has been handed everything
  | gated       -- outputs are blocked; the stop is requested against the backlog; then outputs are released
  | immediate   -- the stop is requested as soon as the last write has returned
  | early       -- nothing is written; the stop is requested as soon as the task has started
  deriving DecidableEq, Repr, Inhabited

/-- Output-relevant shape of a pipeline node (the spec does not look inside). -/
inductive NodeShape where
  | plain | syncOutput | alertOutput | influxOutput | udf | failing | loopback
  deriving DecidableEq, Repr, Inhabited

structure Input where
  chain : List NodeShape
  stop : StopKind
  cls : Class
  n : Nat
  deriving DecidableEq, Repr, Inhabited

/-- finding `ingest-edge-not-drained-on-stop`: StopTask/DeleteTask unregister the task while accepted points
still sit in the TaskMaster's own write_points edge (only `Close` drains it first). -/
def devIngest (i : Input) : Bool := i.stop ≠ .close && (i.cls = .gated || i.cls = .immediate)

/-- finding `influxdbout-stop-drops-backlog`: influxDBOut.stop() = flush()+abort() runs before the node has
drained its input edge. -/
def devInflux (i : Input) : Bool := i.chain.contains .influxOutput && (i.cls = .gated || i.cls = .immediate)

/-- finding `udf-stop-aborts-backlog`: UDFNode.stop() aborts the UDF while its input edge still holds points. -/
def devUdf (i : Input) : Bool := i.chain.contains .udf && (i.cls = .gated || i.cls = .immediate)

/-- finding `loopback-stop-deadlock`: StopTask holds tm.mu while the loopback node needs the fork goroutine
(which needs tm.mu.RLock) to make room in write_points. -/
def devLoop (i : Input) : Bool := i.chain.contains .loopback && i.stop ≠ .close && (i.cls = .gated || i.cls = .immediate)

/-! (The deviation clauses of the former findings `udf-above-failed-node-blocks-stop`, `failed-udf-forwarder-not-joined`
and `periodic-barrier-delete-deadlock` are gone: the defects were repaired in /repo - see findings/C07.txt - and a
hang / a crash of such a pipeline is a violation like any other.) -/

end Kap.C07
