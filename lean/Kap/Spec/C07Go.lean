/-
C07 — every goroutine the task code starts (`go` statements of the root package, edge/ and alert/, listed by
extract/c07gosites into Kap/Gen/C07Go.lean on every run) and what happens to it when the task stops: who joins
it, or why it is not a goroutine of a running task, or when it is left behind. Read from the code by hand; the
theorem `go_sites_all_classified` (Props) only guarantees that the table is COMPLETE and CURRENT: a new, removed
or moved `go` statement makes it fail.
-/
namespace Kap.C07

inductive GoClass where
  | joined (byWhom : String)    -- stopped and waited for before the node / task / TaskMaster stop returns
  | notTask (why : String)      -- not a goroutine of an executing task
  | leaks (when : String)       -- can be left behind
  deriving Repr, DecidableEq

/-- The classification, in the order of Kap.C07.Gen.goSites. -/
def goTable : List ((String × String × String) × GoClass) := [
  (("alert/topics.go", "newHandler", "func"),
    .joined "bufHandler.Close/Abort (wg.Wait) from Topic.close/removeHandler; AlertNode.runAlert closes its anonymous topic on both exit paths since d61e6a5 (model: helper of kind alert)"),
  (("barrier.go", "idleBarrier.Init", "n.idleHandler"),
    .joined "the handler of the LAST incarnation of every group: idleBarrier.Stop (stop signal + wg.Wait) from the deferred stopBarrierEmitter of runBarrierEmitter, i.e. before node.start closes the child edges (a failing node aborts its input edge first, 8c17403, so that a handler blocked collecting into the full edge returns). The handler of an EARLIER incarnation (its group was deleted by a DeleteGroup message and created again by the next point) is only signalled by idleBarrier.DeleteGroup, not joined: it returns at its next select; it can touch the child edges after the node has closed them only if its timer fires and it is not scheduled between that select and the send for the whole rest of the node's life (a send it had already queued precedes every later send of the node: FIFO) - looked for on the real code (idle 1 ms, delete(TRUE), writer pauses, stop at once: no panic, no goroutine left in 50 runs), not reproducible from outside, no repair made. It also collects into the node's OWN input edge, which the parent closes: guarded by Edge.CollectUnlessClosed since e30c0fb (model: helper of kind barrier, action timerFire)"),
  (("barrier.go", "periodicBarrier.Init", "n.periodicEmitter"),
    .joined "EVERY incarnation: periodicBarrier.Stop only signals (close stopC; 93b2e57), the emitters of all groups, deleted ones included, share BarrierNode.periodicEmitters, which stopBarrierEmitter waits for before runF returns; same write into the own input edge, same guard, same abort of the input edge by a failing node (model: kind barrier)"),
  (("batch.go", "FluxQueryNode.Start", "func"),
    .joined "doQuery owns the edge it collects into (defer in.Close()); it returns on n.closing (stopBatch) and runBatch receives its result from queryErr (batch tasks are not in the model)"),
  (("batch.go", "FluxQueryNode.runBatch", "func"),
    .joined "the forwarding goroutine ends when doQuery has closed the edge; runBatch receives errC (or gives up on n.aborting) (not in the model)"),
  (("batch.go", "QueryNode.Start", "func"),
    .joined "as FluxQueryNode.Start"),
  (("batch.go", "QueryNode.runBatch", "func"),
    .joined "as FluxQueryNode.runBatch"),
  (("batch.go", "cronTicker.Start", "func"),
    .joined "cronTicker.Stop: close(closing); wg.Wait — from stopBatch (not in the model)"),
  (("batch.go", "timeTicker.Start", "func"),
    .joined "timeTicker.Stop: close(stopping); wg.Wait — from stopBatch (not in the model)"),
  (("edge/consumer.go", "multiConsumer.Consume", "func"),
    .leaks "one readEdge goroutine per parent: when the receiver returns an error (or firstErr fires) Consume returns while readEdge goroutines may still block on the unbuffered c.messages for ever; on the normal path they end with their edges (union/join nodes; not in the chain model)"),
  (("edge/consumer.go", "multiConsumer.Consume", "func"),
    .leaks "the collector of the readEdge results: waits for all readEdge goroutines, so it is left behind together with them on the error path"),
  (("influxdb_out.go", "writeBuffer.start", "w.run"),
    .joined "writeBuffer.abort (close(stopping); wg.Wait) from InfluxDBOutNode.stopOut (model: helper of kind influx, phases flushed/wbWait)"),
  (("node.go", "node.start", "func"),
    .joined "node.Wait (errCh) from ExecutingTask.stop, per node in walk order (model: the node process, `done`)"),
  (("replay.go", "ReplayBatchFromChan", "func"), .notTask "replay service: feeds a task's collectors, owned by the caller of Replay*"),
  (("replay.go", "ReplayBatchFromChan", "func"), .notTask "replay service"),
  (("replay.go", "ReplayBatchFromIO", "func"), .notTask "replay service"),
  (("replay.go", "ReplayBatchFromIO", "func"), .notTask "replay service"),
  (("replay.go", "ReplayBatchFromIO", "func"), .notTask "replay service"),
  (("replay.go", "ReplayStreamFromChan", "func"), .notTask "replay service"),
  (("replay.go", "ReplayStreamFromIO", "func"), .notTask "replay service"),
  (("replay.go", "ReplayStreamFromIO", "func"), .notTask "replay service"),
  (("replay.go", "ReplayStreamFromIO", "func"), .notTask "replay service"),
  (("task.go", "ExecutingTask.start", "et.calcThroughput"),
    .joined "et.wg.Wait at the end of ExecutingTask.stop after close(et.stopping) (model: thrDone, phase wgWait)"),
  (("task.go", "ExecutingTask.start", "et.runSnapshotter"),
    .joined "et.wg.Wait, same (only with a snapshot interval; not in the model)"),
  (("task_master.go", "TaskMaster.stream", "func"),
    .joined "runForking: tm.wg.Wait in waitForForks (Drain/Close) after closing write_points; belongs to the TaskMaster, not to a task (model: the fork process, forkDone)"),
  (("udf.go", "UDFNode.runUDF", "func"),
    .leaks "the forwarding goroutine: runUDF receives forwardErr after udf.Close — but NOT when udf.Close returns an error (the UDF process died): runUDF returns at once, node.start closes the child edges and this goroutine may still be in edge.Forward: send on closed channel, the process dies (finding failed-udf-forwarder-not-joined; model: kind udf, fwdDead when it ended early)"),
  (("udf.go", "UDFNode.runUDF", "func"),
    .joined "the writing goroutine: n.wg.Wait in runUDF and in abortedCallback (model: kind udf, the take action)"),
  (("udf.go", "UDFProcess.Open", "func"),
    .joined "waits for the child process; UDFProcess.Stop waits for it via the server (process UDFs are faked in the harness)"),
  (("udf.go", "UDFProcess.Open", "p.logStdErr"),
    .joined "logStdErrGroup.Wait in the process-wait goroutine")
]

end Kap.C07
