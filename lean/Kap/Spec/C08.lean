/-
C08 — the property itself, over plain histories and plain observations; nothing here knows about sub-steps,
buckets, closed flags or `restoreEvent`.

"With topic persistence on, after a restart from the storage as it stood at any moment, every alert ID resumes at
the last non-OK level that was recorded for it (IDs whose last event was OK resume as OK), so processing the
remaining data yields the same final topic state as an uninterrupted run, and handlers are told of every level
the ID ends up in that differs from the last level they were told before the crash."

* `lastLevel ops T id`     — the level last recorded for `id` on topic `T` by a history (OK if none / topic deleted);
* `recorded ops k done`     — the history that counts as recorded when the process dies during `ops[k]`
                              (`done` = its storage transaction had committed);
* `lastTold evs T id`       — the level handlers of `T` were last told for `id` (OK if never);
* clauses over observed levels (`Lv = topic → id → level`, absent = OK):
    `resumeOK`   : levels right after the restart = `lastLevel` of the recorded history;
    `finalOK`    : levels after processing the remaining data = levels of the uninterrupted run;
    `handlersOK` : what handlers were last told (before the crash ++ after it) = the level the id ended in.
Core Lean only.
-/
import Kap.Model.C08
namespace Kap.C08

/-- The level last recorded for `(T, id)`: the most recent event wins; deleting the topic forgets. -/
def lastLevelFrom (l0 : Nat) (ops : List Op) (T id : String) : Nat :=
  ops.foldl (fun lv op => match op with
    | .collect T' i l _ => if T' = T ∧ i = id then l else lv
    | .update T' i l _ => if T' = T ∧ i = id then l else lv
    | .deleteTopic T' => if T' = T then 0 else lv
    | _ => lv) l0

def lastLevel (ops : List Op) (T id : String) : Nat := lastLevelFrom 0 ops T id

/-- What counts as recorded when the process dies while `ops[k]` is in flight. -/
def recorded (ops : List Op) (k : Nat) (done : Bool) : List Op :=
  ops.take k ++ (if done then (ops[k]?).toList else [])

/-- The history an uninterrupted run is compared with: the recorded part, then the remaining data. -/
def survived (ops : List Op) (k : Nat) (done : Bool) : List Op := recorded ops k done ++ ops.drop (k + 1)

/-- The history an uninterrupted run is compared with after SEVERAL process deaths (crash points as in
`multiCrash`; `done ops k j` says whether the operation in flight had committed). -/
def multiSurvived (done : List Op → Nat → Nat → Bool) (ops : List Op) : List (Nat × Nat) → List Op
  | [] => ops
  | (k, j) :: cs => recorded ops k (done ops k j) ++ multiSurvived done (ops.drop (k + 1)) cs

/-- Is a record for `(T,id)` expected on disk at all? (`Collect` clears the record on OK; the reconciling
`UpdateEvent` stores whatever it is given.) -/
def recordExpectedFrom (b0 : Bool) (ops : List Op) (T id : String) : Bool :=
  ops.foldl (fun b op => match op with
    | .collect T' i l _ => if T' = T ∧ i = id then decide (l ≠ 0) else b
    | .update T' i _ _ => if T' = T ∧ i = id then true else b
    | .deleteTopic T' => if T' = T then false else b
    | _ => b) b0

def recordExpected (ops : List Op) (T id : String) : Bool := recordExpectedFrom false ops T id

/-- With storage failures: an operation whose transaction failed was reported as failed to its caller and does
not count as recorded. -/
def effective (fops : List (Op × Nat)) : List Op := (fops.filter (fun f => f.2 == 0)).map (·.1)

/-- The level the handlers of topic `T` were last told for `id`. -/
def lastTold (evs : List Ev) (T id : String) : Nat :=
  evs.foldl (fun lv e => if e.topic = T ∧ e.id = id then e.level else lv) 0

/-- Is the topic dormant (closed by its task and not used since) at the end of the history? -/
def dormantFrom (b0 : Bool) (ops : List Op) (T : String) : Bool :=
  ops.foldl (fun b op => match op with
    | .closeTopic T' => if T' = T then true else b
    | .collect T' _ _ _ => if T' = T then false else b
    | .deleteTopic T' => if T' = T then false else b
    | _ => b) b0

def dormant (ops : List Op) (T : String) : Bool := dormantFrom false ops T

/-- Histories whose every level change is announced: no silent `UpdateEvent`, no topic deletion. -/
def Op.announced : Op → Bool
  | .update .. => false
  | .deleteTopic _ => false
  | _ => true

/-- Was the last thing that happened to `(T,id)` silent (a reconciling `UpdateEvent` or the deletion of the topic)?
Handlers are not told of those by design. -/
def silentFrom (b0 : Bool) (ops : List Op) (T id : String) : Bool :=
  ops.foldl (fun b op => match op with
    | .collect T' i _ _ => if T' = T ∧ i = id then false else b
    | .update T' i _ _ => if T' = T ∧ i = id then true else b
    | .deleteTopic T' => if T' = T then true else b
    | _ => b) b0

def silent (ops : List Op) (T id : String) : Bool := silentFrom false ops T id

/-! ### the alert node -/

/-- The level an alert id stands at after one more point, as far as topics and handlers are concerned: the
level of the point — except that with `noRecoveries` an OK point leaves the alert standing. (`stateChangesOnly`
only thins out repeats, it never changes the level.) -/
def nodeLevelStep (noRec : Bool) (id : String) (L : Nat) : NOp → Nat
  | .point i l _ => if i = id then (if l = 0 ∧ noRec = true then L else l) else L
  | .taskRestart => L

def nodeLevelFrom (noRec : Bool) (L0 : Nat) (ops : List NOp) (id : String) : Nat :=
  ops.foldl (nodeLevelStep noRec id) L0

def nodeLevel (noRec : Bool) (ops : List NOp) (id : String) : Nat := nodeLevelFrom noRec 0 ops id

/-- Observed levels. -/
abbrev Lv := String → String → Nat

def resumeOK (ops : List Op) (k : Nat) (done : Bool) (resumed : Lv) (keys : List (String × String)) : Bool :=
  keys.all fun (T, id) => resumed T id == lastLevel (recorded ops k done) T id

def finalOK (final uninterrupted : Lv) (keys : List (String × String)) : Bool :=
  keys.all fun (T, id) => final T id == uninterrupted T id

def handlersOK (told : List Ev) (final : Lv) (keys : List (String × String)) : Bool :=
  keys.all fun (T, id) => lastTold told T id == final T id

/-! ### the alert node: which handlers does a process death INSIDE a point mislead?

A point of an alert node with an anonymous AND a named topic is announced to the handlers of the anonymous topic,
recorded there, announced to the handlers of the named topic, recorded there — four moments, in this order; the
process can die between any two. The definitions below say, from the history and the crash point alone (no model
run), where every id ends up after the restart and what its handlers were last told; `nodeMisledChar` is the exact
set of (topic, id) that end with a level the handlers were not told (findings `notify-before-persist` and
`two-topic-split`); theorem `node_handlers_not_misled_except_characterised` proves it exact. -/

/-- Is a point of level `l` announced (handed to `handleEvent`) when the alert stands at `cur`? An unchanged
level is repeated only when it is not OK and there is no `.stateChangesOnly()`; a change always, except a recovery
under `.noRecoveries()`. -/
def announces (sco noRec : Bool) (cur l : Nat) : Bool :=
  if cur = l then (l != 0 && !sco) else !(noRec && l == 0)

/-- The level the node itself holds for an id: that of its last point since the task (re)started. -/
def groupStep (id : String) (g : Option Nat) : NOp → Option Nat
  | .point i l _ => if i = id then some l else g
  | .taskRestart => none

def groupLevel (ops : List NOp) (id : String) : Option Nat := ops.foldl (groupStep id) none

/-- Does a node whose topics hold `id` at level `Lv` (and whose own state for the id is `g`; `none` = to be
restored from the topics) process `ops` WITHOUT announcing `id` even once? -/
def quietFrom (sco noRec : Bool) (Lv : Nat) (id : String) : Option Nat → List NOp → Bool
  | _, [] => true
  | g, .point i l _ :: rest =>
    if i = id then !announces sco noRec (g.getD Lv) l && quietFrom sco noRec Lv id (some l) rest
    else quietFrom sco noRec Lv id g rest
  | _, .taskRestart :: rest => quietFrom sco noRec Lv id none rest

def hasPoint (id : String) (ops : List NOp) : Bool :=
  ops.any fun | .point i _ _ => i == id | .taskRestart => false

/-- How far a point that is announced got when the process died after `j` of its sub-steps
(`[set the node's state; anonymous topic: restore-if-closed, memory, NOTIFY, TRANSACTION; named topic: the same
four]`): were the handlers of the anonymous / named topic told, had the record reached the disk? -/
structure Reached where
  toldA : Bool
  diskA : Bool
  toldN : Bool
  diskN : Bool
deriving DecidableEq, Repr

def reached (announced : Bool) (j : Nat) : Reached :=
  { toldA := announced && decide (4 ≤ j), diskA := announced && decide (5 ≤ j),
    toldN := announced && decide (8 ≤ j), diskN := announced && decide (9 ≤ j) }

/-- The silent reconciliation (`restoreEvent`) at the first point of the id after the restart, on levels: both
topics know the id → the anonymous topic wins; only the named topic knows it (the anonymous record was cleared
by an OK, or never written) → the named topic's state is copied to the anonymous topic; only the anonymous topic
knows it → nothing. -/
def reconcile (dA dN : Nat) : Nat × Nat :=
  if dA = dN then (dA, dN) else if dA = 0 then (dN, dN) else if dN = 0 then (dA, dN) else (dA, dA)

/-- where an id ends on the anonymous (`A`) / named (`N`) topic and what the handlers there were last told -/
structure NodeEnd where
  lvA : Nat
  tA : Nat
  lvN : Nat
  tN : Nat
deriving DecidableEq, Repr

/-- For a crash after `j` sub-steps of `ops[k]`, a point: the id in flight, whether the restarted node never
announces that id again (`quiet`), and — if so — where the id ends and what its handlers were last told. -/
def nodeCrashEnd (sco noRec : Bool) (ops : List NOp) (k j : Nat) : Option (String × Bool × NodeEnd) :=
  match ops[k]? with
  | some (.point id l _) =>
    let L := nodeLevel noRec (ops.take k) id
    let cur := (groupLevel (ops.take k) id).getD L
    let r := reached (announces sco noRec cur l) j
    let dA := if r.diskA then l else L
    let dN := if r.diskN then l else L
    let rest := ops.drop (k + 1)
    let e := if hasPoint id rest then reconcile dA dN else (dA, dN)
    some (id, quietFrom sco noRec e.1 id none rest,
      { lvA := e.1, tA := if r.toldA then l else L, lvN := e.2, tN := if r.toldN then l else L })
  | _ => none

/-- (told, level) the characterisation predicts for topic `T` (`isAnon`: the anonymous one) -/
def NodeEnd.on (e : NodeEnd) (isAnon : Bool) : Nat × Nat := if isAnon then (e.tA, e.lvA) else (e.tN, e.lvN)

/-- **The misled set**: `(topic, id)` ends with a level its handlers were not told iff `id` is the id of the point
in flight, the restarted node never announces it again, and on that topic the last word differs from the level
the id ends at. -/
def nodeMisledChar (sco noRec : Bool) (ops : List NOp) (k j : Nat) (isAnon : Bool) (id : String) : Bool :=
  match nodeCrashEnd sco noRec ops k j with
  | some (i0, quiet, e) => id == i0 && quiet && (e.on isAnon).1 != (e.on isAnon).2
  | none => false

/-- (last word of the handlers, level the id ends at) on the anonymous / named topic, for the id in flight when
the restarted node stays quiet about it -/
def nodeDeviation (sco noRec : Bool) (ops : List NOp) (k j : Nat) (isAnon : Bool) : Nat × Nat :=
  match nodeCrashEnd sco noRec ops k j with
  | some (_, _, e) => e.on isAnon
  | none => (0, 0)

/-! ### the WHOLE state, not only its level -/

/-- The state last recorded for `(T, id)`, all of it (level, time, duration, message, details): the most recent
`Collect`/`UpdateEvent` wins; deleting the topic forgets. -/
def lastStateFrom (s0 : Option ES) (ops : List Op) (T id : String) : Option ES :=
  ops.foldl (fun st op => match op with
    | .collect T' i l p => if T' = T ∧ i = id then some { id := i, level := l, time := p } else st
    | .update T' i l p => if T' = T ∧ i = id then some { id := i, level := l, time := p } else st
    | .deleteTopic T' => if T' = T then none else st
    | _ => st) s0

def lastState (ops : List Op) (T id : String) : Option ES := lastStateFrom none ops T id

/-- `final-state-equals-uninterrupted`, field by field: every state a topic shows (in memory or in its bucket) is
the state last recorded for that id — the one an uninterrupted run holds — in all five fields. -/
def statesOK (shown : String → String → Option ES) (ops : List Op) (keys : List (String × String)) : Bool :=
  keys.all fun (T, id) => match shown T id with
    | some e => lastState ops T id == some e
    | none => true

end Kap.C08
