/-
C09 — the property itself, stated over the plain history of operations, independently of how the code
stores anything (no sorted slice, no comparator, no swap-removal):

* the current state of an event id on a topic is the last state collected/updated/restored for it since
  the topic was last (re)created;
* the topic level is the maximum of the current levels (OK if none);
* listing with a minimum level returns exactly the current states at or above it;
* an event's previous level is the level of the current state of its id just before it;
* handler `h` receives, for topic `T`, exactly the events collected on `T` while `h` was registered on `T`,
  in collection order.
Core Lean only.
-/
import Kap.Model.C09
namespace Kap.C09

def upsert (l : List ES) (s : ES) : List ES :=
  if l.any (fun e => e.id == s.id) then l.map (fun e => if e.id == s.id then s else e) else l ++ [s]

def lookupLevel (l : List ES) (id : String) : Nat :=
  match l.find? (fun e => e.id == id) with
  | some e => e.level
  | none => 0

/-- The current states of `topic` (one entry per id, first-seen order) after one more operation. -/
def curStep (topic : String) (cur : List ES) : Op → List ES
  | .collect T id level time => if T == topic then upsert cur { id := id, level := level, time := time } else cur
  | .update T id level time => if T == topic then upsert cur { id := id, level := level, time := time } else cur
  | .deltopic T => if T == topic then [] else cur
  | .restore T states => if T == topic then states else cur
  | _ => cur

def specCur (topic : String) (ops : List Op) : List ES := ops.foldl (curStep topic) []
def specMaxLevel (topic : String) (ops : List Op) : Nat := (specCur topic ops).foldl (fun m e => max m e.level) 0
def specStates (topic : String) (min : Nat) (ops : List Op) : List ES :=
  (specCur topic ops).filter (fun e => decide (e.level ≥ min))

/-- Spec state of one (topic, handler) pair. -/
structure SpecSt where
  cur : List ES := []        -- current state per id
  registered : Bool := false
  got : List Ev := []
deriving Repr, Inhabited

def regStep (topic hid : String) (registered : Bool) : Op → Bool
  | .reg T h => if T == topic && h == hid then true else registered
  | .dereg T h => if T == topic && h == hid then false else registered
  | .replace T old new =>
    if T == topic then (if new == hid then true else if old == hid then false else registered) else registered
  | .deltopic T => if T == topic then false else registered
  | _ => registered

def specStep (topic hid : String) (st : SpecSt) (op : Op) : SpecSt :=
  { cur := curStep topic st.cur op,
    registered := regStep topic hid st.registered op,
    got := match op with
      | .collect T id level time =>
        if T == topic && st.registered then
          st.got ++ [{ topic := T, id := id, level := level, time := time, prev := lookupLevel st.cur id }]
        else st.got
      | _ => st.got }

def specRun (topic hid : String) (ops : List Op) : SpecSt := ops.foldl (specStep topic hid) {}
def specDelivered (topic hid : String) (ops : List Op) : List Ev := (specRun topic hid ops).got

/-- Well-formed histories: a restored state map has distinct ids (it is a Go map). -/
def Op.wf : Op → Bool
  | .restore _ states => decide ((states.map (·.id)).Nodup)
  | _ => true

end Kap.C09
