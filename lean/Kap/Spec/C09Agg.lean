/-
C09, aggregate handler — the content rule, declaratively: the event emitted for a group of collected events
has the MAXIMUM level of the group, the LATEST time of the group and counts exactly the group; nothing is
emitted for an empty group. A sequence of emitted events is correct for an input sequence when the counts cut
the input into consecutive non-empty groups covering it exactly once, every emitted event obeys the content rule
for its group, and (as the target topic reports it) each one's previous level is the level of the one before.
Core Lean only.
-/
import Kap.Model.C09Agg
namespace Kap.C09.Agg

def isMaxLevel (evs : List In) (l : Nat) : Bool :=
  evs.all (fun e => decide (e.level ≤ l)) && (l == 0 || evs.any (fun e => e.level == l))

def isLatest (evs : List In) (t : Int) : Bool :=
  evs.all (fun e => decide (e.time ≤ t)) && evs.any (fun e => e.time == t)

def contentOK (evs : List In) (o : Out) : Bool :=
  !evs.isEmpty && isMaxLevel evs o.level &&
    (match o.time with | some t => isLatest evs t | none => false) && o.count == evs.length

/-- observed emission as the recorder on the target topic sees it -/
structure Seen where
  count : Nat
  level : Nat
  time : Int
  prev : Nat
deriving Repr, Inhabited

/-- `none` = fine; `some clause` = which part of the rule fails. `prev` = level of the last emission before. -/
def judgeSeq : List In → Nat → List Seen → Option String
  | [], _, [] => none
  | _ :: _, _, [] => some "aggregate-covers-every-event: collected events were never aggregated"
  | pending, prev, o :: os =>
    if o.count == 0 then some "aggregate-never-empty: an aggregate event for zero events"
    else if pending.length < o.count then some "aggregate-covers-every-event-once: more events counted than were collected"
    else if !contentOK (pending.take o.count) { level := o.level, time := some o.time, count := o.count } then
      some "aggregate-content: level is not the maximum or time is not the latest of its group"
    else if o.prev != prev then some "aggregate-previous-level: previous level is not the level of the preceding aggregate event"
    else judgeSeq (pending.drop o.count) o.level os

end Kap.C09.Agg
