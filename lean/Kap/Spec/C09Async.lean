/-
C09, service layer — the SCHEDULE-QUANTIFIED specification: what must hold of the recorders' logs whatever the
goroutines' interleaving was, for configurations whose topics may have several ways in.

* `fut` — the declarative chain semantics generalised from "the unique predecessor" to ALL chains: where the event
  of one collect goes, as a list of entries (recorder, collect number, chain of publish handlers), one entry per
  chain of registered specs whose match expressions hold. Defined by recursion ALONG the topic order (`along`), with
  no queues, no state. For match expressions that do not mention `changed()` it does not depend on previous levels.
* `expected` — the sum over the collects of a history (the configuration at the time of each collect is computed
  from the external operations alone, `Cfg`).
* `prevOKb` — local consistency of previous levels on one arrival sequence (newest first).
* `weight` / `measure` — the termination measure (acyclic edges).
* `mergeOK` — is an observed log an order-preserving merge of given streams (frontier DP; what the driver runs).
Core Lean only.
-/
import Kap.Model.C09Async
namespace Kap.C09.AsyncSpec
open Kap.C09 Kap.C09.Svc Kap.C09.SvcSpec Kap.C09.Async

/-- an event with the previous level blanked: what stays the same along every chain -/
def norm (e : SEv) : SEv := { e with prev := 0 }

def noChangedM : M → Bool
  | .changed _ => false
  | .and a b => noChangedM a && noChangedM b
  | .or a b => noChangedM a && noChangedM b
  | _ => true

/-- no registered match expression looks at the previous level -/
def noChanged (specs : List Spec) : Bool := specs.all (fun sp => noChangedM (matchTable.getD sp.midx .all))

/-- recursion along the topic order: the value at `T` is computed from the values at the topics after `T` -/
def along {β : Type} (lvl : (String → β) → String → β) (z : String → β) : List String → String → β
  | [], T => lvl z T
  | o :: rest, T => if o = T then lvl (along lvl z rest) T else along lvl z rest T

/-- (recorder key, collect number, chain of publish handlers) -/
abbrev Entry := Key × Nat × List Key

/-- one arrival on `T`: to the recorders of `T`, and through every spec of `T` whose match holds to its targets -/
def futLevel (specs : List Spec) (recs : List Key) (below : String → Nat → List Key → SEv → List Entry)
    (T : String) (c : Nat) (p : List Key) (e : SEv) : List Entry :=
  (recs.filter (fun r => r.1 == T)).map (fun r => (r, c, p)) ++
  (specs.filter (fun sp => sp.topic == T)).flatMap (fun sp =>
    if holds sp e then sp.targets.flatMap (fun t => below t c (p ++ [sp.key]) e) else [])

/-- **The chain semantics over all chains**: everything the arrival of event `e` (collect number `c`, chain so far
`p`) on topic `T` leads to. -/
def fut (specs : List Spec) (recs : List Key) (ord : List String) : String → Nat → List Key → SEv → List Entry :=
  along (futLevel specs recs) (fun _ _ _ _ => []) ord

/-- what one queued event of spec handler `sp` still leads to -/
def futH (specs : List Spec) (recs : List Key) (ord : List String) (sp : Spec) (it : Item) : List Entry :=
  if holds sp (norm it.ev) then sp.targets.flatMap (fun t => fut specs recs ord t it.cid (it.path ++ [sp.key]) (norm it.ev))
  else []

/-- the configuration: what the external operations alone determine -/
structure Cfg where
  specs : List Spec := []
  recs : List Key := []
  ncol : Nat := 0

def Cfg.isSpec (c : Cfg) (k : Key) : Bool := c.specs.any (fun sp => sp.topic == k.1 && sp.hid == k.2)

def Cfg.step (c : Cfg) : Svc.Op → Cfg
  | .recorder T n => if (T, n) ∈ c.recs then c else { c with recs := c.recs ++ [(T, n)] }
  | .reg sp => if c.isSpec sp.key then c else { c with specs := c.specs ++ [sp] }
  | .dereg T hid => { c with specs := c.specs.filter (fun x => !(x.topic == T && x.hid == hid)) }
  | .upd T old sp =>
    if c.isSpec (T, old) = true ∧ (sp.key = (T, old) ∨ c.isSpec sp.key = false) then
      { c with specs := c.specs.filter (fun x => !(x.topic == T && x.hid == old)) ++ [sp] }
    else c
  | .collect _ _ => { c with ncol := c.ncol + 1 }

/-- **The specification of a history**: the sum, over its collects, of the chains of the configuration of that
moment whose match expressions hold for the collected event. -/
def expected (ord : List String) : Cfg → List Svc.Op → List Entry
  | _, [] => []
  | c, op :: ops =>
    (match op with
     | .collect T ev => fut c.specs c.recs ord T c.ncol [] (norm ev)
     | _ => []) ++ expected ord (c.step op) ops

/-- the external operations of a schedule -/
def extOps (sched : List Step) : List Svc.Op :=
  sched.filterMap (fun st => match st with | .ext op => some op | _ => none)

/-- the entries a state holds: what every recorder has got or has queued -/
def held (s : ASt) : List Entry :=
  s.recs.flatMap (fun r => (s.got r ++ s.rq r).map (fun it => (r, it.cid, it.path)))

/-- what the events queued on spec handlers still lead to -/
def pending (ord : List String) (s : ASt) : List Entry :=
  s.specs.flatMap (fun sp => (s.hq sp.key).flatMap (fun it => futH s.specs s.recs ord sp it))


/-! ### hypotheses along a schedule -/

/-- `P` holds of the state before every step of the schedule and of the final state -/
def Always (P : ASt → Prop) : List Step → ASt → Prop
  | [], s => P s
  | st :: rest, s => P s ∧ Always P rest (exec s st)

/-- the configuration (recorders, specs) is only changed while all queues are empty — what the harness' flush
establishes before every operation other than a collect -/
def CfgWhenQuiet : List Step → ASt → Prop
  | [], _ => True
  | st :: rest, s =>
    (match st with
     | .ext (.collect _ _) => True
     | .ext _ => s.quiet = true
     | _ => True) ∧ CfgWhenQuiet rest (exec s st)

/-- the configuration a state carries -/
def cfgOf (s : ASt) : Cfg := { specs := s.specs, recs := s.recs, ncol := s.ncol }

/-! ### previous levels -/

/-- level of the id's latest arrival in an arrival sequence given NEWEST FIRST -/
def lastNF (l : List SEv) (id : String) : Option Nat := (l.find? (fun e => e.id == id)).map (·.level)

/-- **local consistency of previous levels** (sequence newest first): an event whose id arrived before carries the
level of that id's preceding arrival -/
def prevOKb : List SEv → Bool
  | [] => true
  | e :: older =>
    (match lastNF older e.id with
     | some l => e.prev == l
     | none => true) && prevOKb older

/-! ### termination measure -/

def wLevel (specs : List Spec) (recs : List Key) (below : String → Nat) (T : String) : Nat :=
  (recs.filter (fun r => r.1 == T)).length +
  ((specs.filter (fun sp => sp.topic == T)).map (fun sp => 1 + (sp.targets.map below).sum)).sum

/-- number of handler steps one arrival on `T` can cause at most -/
def weight (specs : List Spec) (recs : List Key) (ord : List String) : String → Nat :=
  along (wLevel specs recs) (fun _ => 0) ord

def wSpec (specs : List Spec) (recs : List Key) (ord : List String) (sp : Spec) : Nat :=
  1 + (sp.targets.map (weight specs recs ord)).sum

/-- **the measure**: every queued event counted with the number of handler steps it can still cause -/
def measure (ord : List String) (s : ASt) : Nat :=
  (s.specs.map (fun sp => (s.hq sp.key).length * wSpec s.specs s.recs ord sp)).sum +
  (s.recs.map (fun r => (s.rq r).length)).sum

/-! ### what the driver evaluates on observed logs -/

/-- lexicographic order on the remaining parts of streams (only used to put a search state in canonical form) -/
def lexLt : List Int → List Int → Bool
  | [], [] => false
  | [], _ :: _ => true
  | _ :: _, [] => false
  | a :: as, b :: bs => a < b || (a == b && lexLt as bs)

def insertSorted (x : List Int) : List (List Int) → List (List Int)
  | [] => [x]
  | y :: ys => if lexLt y x then y :: insertSorted x ys else x :: y :: ys

/-- a search state: the still unconsumed remainders of the streams, as a SORTED list (a multiset: streams with the
same remainder are interchangeable, so the states reached by permuting them are one state) -/
abbrev MState := List (List Int)

/-- all ways to take `x` from the head of one remainder; remainders equal to an earlier one are skipped -/
def takeHead (x : Int) : (before : List (List Int)) → (rest : List (List Int)) → List MState
  | _, [] => []
  | before, r :: rest =>
    let here :=
      match r with
      | y :: tl =>
        if y == x && !(before.head? == some r) then
          -- `before` is kept reversed; equal remainders are adjacent in a sorted state
          [insertSorted tl (before.reverse ++ rest)]
        else []
      | [] => []
    here ++ takeHead x (r :: before) rest

def mergeStep (x : Int) (front : List MState) : List MState :=
  (front.flatMap (fun st => takeHead x [] st)).eraseDups

/-- Is `obs` an order-preserving merge of `streams`? Frontier search over the multisets of unconsumed remainders
(exact: every assignment of the observed events to the streams is explored up to interchanging streams with equal
remainders). -/
def mergeOK (obs : List Int) (streams : List (List Int)) : Bool :=
  let start : MState := streams.foldl (fun acc s => insertSorted s acc) []
  let final := obs.foldl (fun front x => mergeStep x front) [start]
  final.any (fun st => st.all (·.isEmpty))

/-- three-valued evaluation of a match expression when the previous level is not known (`none` = depends on it) -/
def eval3 (e : SEv) : M → Option Bool
  | .all => some true
  | .levelGe k => some (decide (e.level ≥ k))
  | .levelEq k => some (decide (e.level = k))
  | .changed _ => none
  | .tagEq t v => some (tagOf e t == some v)
  | .and a b =>
    match eval3 e a, eval3 e b with
    | some false, _ => some false
    | _, some false => some false
    | some true, some true => some true
    | _, _ => none
  | .or a b =>
    match eval3 e a, eval3 e b with
    | some true, _ => some true
    | _, some true => some true
    | some false, some false => some false
    | _, _ => none

/-- does the spec hand the event on? `none` = depends on the previous level (schedule dependent) -/
def holds3 (sp : Spec) (e : SEv) : Option Bool :=
  let m := matchTable.getD sp.midx .all
  if m.vars.all (fun t => (tagOf e t).isSome) then eval3 e m else some false

/-- chains from `T` (forward, along `ord`) with a verdict each: `true` = every match certainly holds, `false` = at
least one depends on the previous level (chains with a certainly failing match are dropped). Result: (end topic,
chain, certain). -/
def chains3Level (specs : List Spec) (e : SEv) (below : String → List (String × List Key × Bool)) (T : String) :
    List (String × List Key × Bool) :=
  (T, [], true) :: (specs.filter (fun sp => sp.topic == T)).flatMap (fun sp =>
    match holds3 sp e with
    | some false => []
    | v => sp.targets.flatMap (fun t => (below t).map (fun c => (c.1, sp.key :: c.2.1, c.2.2 && v == some true))))

def chains3 (specs : List Spec) (e : SEv) (ord : List String) : String → List (String × List Key × Bool) :=
  along (chains3Level specs e) (fun _ => []) ord

end Kap.C09.AsyncSpec
