/-
C09 — the delivery part of the property for CONCURRENT histories on `alert.Topics`: operations (collect, register,
deregister, replace) that overlap in time, handlers that are slow (a backlog), a removal that is in progress while
other operations are issued.

What is observed: per handler the LOG of its `Handle` calls (`enter ev` … `exit`), and for every operation the
interval from its invocation to the moment it was seen returned. The property, stated over that alone:

* **one at a time** — for one topic, `Handle` is never entered on a handler while an earlier call for that topic has
  not returned (a handler has ONE queue per topic; FIFO hand-over means the next event is handed over after the
  previous one has been handled);
* **per-handler FIFO** — if collect X had returned before collect Y was invoked (same topic), no handler is handed
  Y's event before X's;
* **exactly once while registered, nothing else** — there is a LINEARISATION: a total order of the operations'
  atomic effects (collect, register, deregister; replace = deregister the old one, later register the new one) that
  respects real time (everything of X before anything of Y when X had returned before Y was invoked) under which
  the sequential history specification `specDelivered` of Kap/Spec/C09.lean (events collected while registered, in
  order, each with the previous level of its id) yields exactly the events the handler entered, in log order.
  For a history without overlap this is `specDelivered` of the history itself.
Core Lean only.
-/
import Kap.Spec.C09
namespace Kap.C09.Drain
open Kap.C09

/-- one entry of a handler's observed log -/
inductive Entry where
  | enter (ev : Ev)
  | exit (topic : String) (time : Int)
deriving DecidableEq, Repr, Inhabited

/-- the events the handler entered for topic `T`, in log order -/
def enteredOf (T : String) (log : List Entry) : List Ev :=
  log.filterMap (fun e => match e with
    | .enter ev => if ev.topic == T then some ev else none
    | .exit _ _ => none)

/-- one at a time on topic `T`: `enter x, exit x, enter y, exit y, …`; `cur` = the call that has not returned -/
def oneAtATimeFrom (T : String) : Option Int → List Entry → Bool
  | _, [] => true
  | cur, .enter ev :: rest =>
    if ev.topic == T then cur.isNone && oneAtATimeFrom T (some ev.time) rest else oneAtATimeFrom T cur rest
  | cur, .exit T' tm :: rest =>
    if T' == T then cur == some tm && oneAtATimeFrom T none rest else oneAtATimeFrom T cur rest

def oneAtATime (T : String) (log : List Entry) : Bool := oneAtATimeFrom T none log

/-- every call that was entered has returned (evaluated at the end of a case, all gates open) -/
def allReturned (T : String) (log : List Entry) : Bool :=
  (enteredOf T log).all (fun ev => log.contains (.exit T ev.time))

/-- an observed operation: when it was invoked, when it was first seen returned (`none`: never), and the atomic
effects it still has to perform -/
structure POp where
  label : String
  inv : Nat
  ret : Option Nat
  effs : List Op
deriving Repr, Inhabited

/-- X had returned before Y was invoked -/
def precedes (x y : POp) : Bool :=
  match x.ret with
  | some r => decide (r < y.inv)
  | none => false

/-- the collect operation that carries the event with time stamp `tm` on topic `T` -/
def collectOf (ops : List POp) (T : String) (tm : Int) : Option POp :=
  ops.find? (fun o => o.effs.any (fun e => match e with
    | .collect T' _ _ t => T' == T && t == tm
    | _ => false))

/-- per-handler FIFO against real time: no pair of entered events in the opposite order of two collects of which the
first had returned before the second was invoked; `none` = fine, `some (a, b)` = `b` was entered before `a` although
`a`'s collect precedes `b`'s -/
def fifoViolation (ops : List POp) (T : String) : List Ev → Option (Ev × Ev)
  | [] => none
  | b :: rest =>
    match rest.find? (fun a => match collectOf ops T a.time, collectOf ops T b.time with
        | some ca, some cb => precedes ca cb
        | _, _ => false) with
    | some a => some (a, b)
    | none => fifoViolation ops T rest

/-- a (topic, handler) pair under observation: the sequential specification's state and what was observed -/
structure Track where
  topic : String
  hid : String
  st : SpecSt := {}
  want : List Ev
deriving Repr, Inhabited

/-- a node of the search: how many of its effects every operation has performed, and the specification's state of
every pair under observation -/
structure Node where
  fired : List Nat
  sts : List SpecSt
deriving Repr, Inhabited

def specStEq (a b : SpecSt) : Bool := a.registered == b.registered && a.cur == b.cur && a.got == b.got

def listEqBy {α : Type} (eq : α → α → Bool) : List α → List α → Bool
  | [], [] => true
  | a :: as, b :: bs => eq a b && listEqBy eq as bs
  | _, _ => false

def Node.same (a b : Node) : Bool := a.fired == b.fired && listEqBy specStEq a.sts b.sts

def complete (o : POp) (k : Nat) : Bool := decide (o.effs.length ≤ k)

/-- the operation at index `i` may perform its next effect: it has one left, and everything that had returned before
it was invoked is complete -/
def candidate (ops : List POp) (n : Node) (i : Nat) : Bool :=
  match ops[i]?, n.fired[i]? with
  | some x, some k =>
    !complete x k && (List.range ops.length).all (fun j =>
      match ops[j]?, n.fired[j]? with
      | some y, some kj => !precedes y x || complete y kj
      | _, _ => true)
  | _, _ => false

/-- operation `i` performs its next effect; `none` when some handler would thereby get something it was not observed
to get (at that position) -/
def fire (ops : List POp) (ts : List Track) (n : Node) (i : Nat) : Option Node :=
  match ops[i]?, n.fired[i]? with
  | some x, some k =>
    match x.effs[k]? with
    | some e =>
      let sts := (ts.zip n.sts).map (fun (t, st) => specStep t.topic t.hid st e)
      if (ts.zip sts).all (fun (t, st) => st.got.isPrefixOf t.want) then
        some { fired := n.fired.set i (k + 1), sts := sts }
      else none
    | none => none
  | _, _ => none

/-- every operation that returned is complete and every handler got exactly what it was observed to enter -/
def linDone (ops : List POp) (ts : List Track) (n : Node) : Bool :=
  (ops.zip n.fired).all (fun (o, k) => o.ret.isNone || complete o k) &&
  (ts.zip n.sts).all (fun (t, st) => st.got == t.want)

def dedupNodes (l : List Node) : List Node :=
  l.foldl (fun acc n => if acc.any (fun m => m.same n) then acc else acc ++ [n]) []

/-- breadth-first search for a linearisation, layer by layer (layer k = the states after k effects), equal states
merged; `none` = a layer grew beyond `width` (no answer) -/
def lin (ops : List POp) (ts : List Track) (width : Nat) : Nat → List Node → Option Bool
  | 0, _ => some false
  | d + 1, frontier =>
    if frontier.isEmpty then some false
    else if frontier.any (linDone ops ts) then some true
    else if frontier.length > width then none
    else
      let next := frontier.flatMap (fun n =>
        ((List.range ops.length).filter (candidate ops n)).filterMap (fire ops ts n))
      lin ops ts width d (dedupNodes next)

def totalEffs (ops : List POp) : Nat := (ops.map (fun o => o.effs.length)).sum

/-- an effect that cannot change what the pairs under observation get -/
def relevant (ts : List Track) : Op → Bool
  | .collect T .. | .update T .. | .deltopic T | .restore T _ => ts.any (fun t => t.topic == T)
  | .reg T h | .dereg T h => ts.any (fun t => t.topic == T && t.hid == h)
  | .replace T o n => ts.any (fun t => t.topic == T && (t.hid == o || t.hid == n))

/-- is there a linearisation? (`none`: the search was given up). Effects that are irrelevant to the pairs under
observation are dropped first (`specStep` ignores them; real-time precedence is transitive, so nothing is lost). -/
def linearisable (ops : List POp) (ts : List Track) (width : Nat := 4000) : Option Bool :=
  let ops := ops.map (fun o => { o with effs := o.effs.filter (relevant ts) })
  lin ops ts width (totalEffs ops + 2) [{ fired := ops.map (fun _ => 0), sts := ts.map (·.st) }]

end Kap.C09.Drain
