/-
C09, service layer — the GLOBAL delivery property, stated over the plain history of operations
(recorder / reg / dereg / upd / collect), independently of how `Kap.C09.Svc.deliver` walks the handlers
(no depth-first traversal, no threaded state, no log):

  what recorder `name` has received for topic `X` = for each `collect T0 ev` of the history, in order and
  counted only from the recorder's registration on `X`: the event arrives at `X` iff there is a CHAIN
      T0 = x0 → x1 → … → xn = X
  of handler specs registered at that moment, `sp_i.topic = x_i`, `x_{i+1} ∈ sp_i.targets`, and the match
  expression of `sp_i` holds for the event AS SEEN on `x_i`. The event as seen on a topic has as previous
  level the level of the id's last arrival on that topic; on the id's first arrival on the topic the previous
  level is the one it carried on the preceding topic of the chain (0 at the start of the chain).

Two formulations, proved equivalent in Kap/Props/C09Svc.lean under the single-entry and forward-only
hypotheses:
  * `Arrives` — the chain, as an inductive proposition (purely declarative);
  * `pull`    — executable, by PULL: whether and how the event arrives at `X` is computed from whether and how
                it arrives at the topic of the one spec that names `X` as a target (its unique way in).
`arrivalsR` / `receivedR` then define every topic's arrival sequence and every recorder's sequence by recursion
on the history, the "last arrival" being looked up in the arrival sequences of the shorter history — so the
specification only ever refers to its own output, never to the model state.
Core Lean only. The data types (`SEv`, `M`, `Spec`, `Op`, `matchTable`) are shared with the model.
-/
import Kap.Model.C09Svc
namespace Kap.C09.SvcSpec
open Kap.C09 Kap.C09.Svc

/-- the match expression of a handler spec holds for the event (an evaluation error is "does not hold") -/
def holds (sp : Spec) (e : SEv) : Bool := (matchTable.getD sp.midx .all).eval e == some true

/-- level of the id's last arrival in an arrival sequence -/
def lastLevel (arr : List SEv) (id : String) : Option Nat :=
  (arr.reverse.find? (fun e => e.id == id)).map (·.level)

/-- the event as topic `X` shows it to its handlers; `last X id` = level of the id's last arrival on `X` -/
def seen (last : String → String → Option Nat) (X : String) (e : SEv) : SEv :=
  { e with prev := (last X e.id).getD e.prev }

/-- **The chain, declaratively.** `Arrives specs last T0 e0 X e`: the event `e0` collected on `T0` arrives at
`X`, where it is seen as `e`. -/
inductive Arrives (specs : List Spec) (last : String → String → Option Nat) (T0 : String) (e0 : SEv) :
    String → SEv → Prop
  | root : Arrives specs last T0 e0 T0 (seen last T0 e0)
  | hop {T : String} {e : SEv} {sp : Spec} {t : String} :
      Arrives specs last T0 e0 T e → sp ∈ specs → sp.topic = T → holds sp e = true → t ∈ sp.targets →
      Arrives specs last T0 e0 t (seen last t e)

/-- the way in to `X`: the registered spec that names `X` as a target (unique under `singleEntry`) -/
def pred (specs : List Spec) (X : String) : Option Spec := specs.find? (fun sp => sp.targets.contains X)

/-- **The chain, by pull.** Does the event `e0` collected on `T0` arrive at `X`, and seen as what?
`n` bounds the length of the chain (a chain never needs more hops than there are specs). -/
def pull (specs : List Spec) (last : String → String → Option Nat) (T0 : String) (e0 : SEv) :
    Nat → String → Option SEv
  | 0, _ => none
  | n + 1, X =>
    if X == T0 then some (seen last X e0)
    else match pred specs X with
      | none => none
      | some sp =>
        match pull specs last T0 e0 n sp.topic with
        | some e => if holds sp e then some (seen last X e) else none
        | none => none

/-! Histories are given newest operation first (`hr`), so that every definition is a structural recursion
"the history so far, then one more operation". -/

/-- the handler specs registered after the history -/
def specsR : List Svc.Op → List Spec
  | [] => []
  | .reg sp :: h =>
    if (specsR h).any (fun x => x.topic == sp.topic && x.hid == sp.hid) then specsR h else specsR h ++ [sp]
  | .dereg T hid :: h => (specsR h).filter (fun x => !(x.topic == T && x.hid == hid))
  | .upd T old sp :: h => (specsR h).filter (fun x => !(x.topic == T && x.hid == old)) ++ [sp]
  | _ :: h => specsR h

/-- has recorder `name` been registered on topic `X`? -/
def registeredR : List Svc.Op → String → String → Bool
  | [], _, _ => false
  | .recorder T n :: h, name, X => (T == X && n == name) || registeredR h name X
  | _ :: h, name, X => registeredR h name X

/-- the sequence of events (as seen) that arrived at topic `X` -/
def arrivalsR : List Svc.Op → String → List SEv
  | [], _ => []
  | .collect T ev :: h, X =>
    arrivalsR h X ++
      (pull (specsR h) (fun Y id => lastLevel (arrivalsR h Y) id) T { ev with prev := 0 }
        ((specsR h).length + 1) X).toList
  | _ :: h, X => arrivalsR h X

/-- what recorder `name` received for topic `X`: the arrivals at `X` since it registered there -/
def receivedR : List Svc.Op → String → String → List SEv
  | [], _, _ => []
  | .collect T ev :: h, name, X =>
    receivedR h name X ++
      (if registeredR h name X then
        (pull (specsR h) (fun Y id => lastLevel (arrivalsR h Y) id) T { ev with prev := 0 }
          ((specsR h).length + 1) X).toList
       else [])
  | _ :: h, name, X => receivedR h name X

/-- **The specification**: what recorder `name` has received for topic `X` after the operations `ops`
(chronological order). -/
def received (ops : List Svc.Op) (name X : String) : List SEv := receivedR ops.reverse name X

/-- arrival sequence of topic `X` after the operations `ops` (chronological order) -/
def arrivals (ops : List Svc.Op) (X : String) : List SEv := arrivalsR ops.reverse X

/-! ### Incremental evaluation (what the driver runs)

`arrivalsR` recomputes the arrival sequences of the shorter history at every look-up. The table below carries
them along as one flat list; `Kap.Props.C09Svc.table_is_spec` proves that it computes exactly `arrivalsR` /
`receivedR`. -/

structure Tbl where
  specs : List Spec := []
  regs : List (String × String) := []                 -- (topic, recorder), no duplicates
  arr : List (String × SEv) := []                     -- (topic, event as seen) in arrival order
  got : List (String × String × SEv) := []            -- (recorder, topic, event as seen)
deriving Repr, Inhabited

def Tbl.arrOf (t : Tbl) (X : String) : List SEv := (t.arr.filter (fun p => p.1 == X)).map (·.2)
def Tbl.gotOf (t : Tbl) (name X : String) : List SEv :=
  (t.got.filter (fun p => p.1 == name && p.2.1 == X)).map (·.2.2)

/-- the topics an event collected on `T` can possibly arrive at -/
def dedup : List String → List String
  | [] => []
  | a :: l => if (dedup l).contains a then dedup l else a :: dedup l

def candidates (specs : List Spec) (T : String) : List String := dedup (T :: specs.flatMap (·.targets))

/-- where the event of `collect T ev` arrives, and seen as what: the pull, asked for every candidate topic -/
def Tbl.hits (t : Tbl) (T : String) (ev : SEv) : List (String × SEv) :=
  (candidates t.specs T).filterMap (fun X =>
    (pull t.specs (fun Y id => lastLevel (t.arrOf Y) id) T { ev with prev := 0 } (t.specs.length + 1) X).map
      (fun e => (X, e)))

def Tbl.step (t : Tbl) : Svc.Op → Tbl
  | .recorder T n => if t.regs.contains (T, n) then t else { t with regs := t.regs ++ [(T, n)] }
  | .reg sp =>
    if t.specs.any (fun x => x.topic == sp.topic && x.hid == sp.hid) then t else { t with specs := t.specs ++ [sp] }
  | .dereg T hid => { t with specs := t.specs.filter (fun x => !(x.topic == T && x.hid == hid)) }
  | .upd T old sp => { t with specs := t.specs.filter (fun x => !(x.topic == T && x.hid == old)) ++ [sp] }
  | .collect T ev =>
    { t with arr := t.arr ++ t.hits T ev,
             got := t.got ++ (t.hits T ev).flatMap (fun h =>
               (t.regs.filter (fun r => r.1 == h.1)).map (fun r => (r.2, h.1, h.2))) }

def Tbl.run (ops : List Svc.Op) : Tbl := ops.foldl Tbl.step {}

end Kap.C09.SvcSpec
