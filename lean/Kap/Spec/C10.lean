/-
C10 — the property itself: the DOCUMENTED function of every node, written over plain histories (lists of points),
per point and per group, independently of how the code keeps its state (no group table, no counters, no buffers,
no copy-on-write):

  * data are compared as MAPS (`Point.equivB`: same name, time, dimensions; tags and fields equal as lookup functions);
  * "per group" = the earlier points with the same group id (`groupHistory`);
  * where      keeps exactly the points whose predicate is true, unchanged;
  * default    output value at k = input value, else the configured default (tags: absent OR empty);
  * delete     output value at k = none for listed keys, else the input value; deleted tags leave the dimensions;
  * shift      time + d;
  * sample     count form: a point is kept iff the number of EARLIER points of its group is a multiple of N;
               duration form: iff its time is a multiple of the duration counted from Go's zero time (year 1);
  * derivative the previous point is the latest earlier point of the group whose field is numeric (a point is stored
               even when nothing is emitted: zero elapsed, negative difference under nonNegative); value =
               (cur - prev) / (elapsed / unit);
  * changeDetect a point is emitted iff a listed field it carries differs from that field of the latest EMITTED point;
  * stateCount  -1 when the predicate is false, else the length of the current run of true (points whose predicate
               fails to evaluate are dropped and do not interrupt the run);
  * stateDuration -1 when false, else (time - time of the first point of the current run) / unit;
  * eval       results in order, later expressions see earlier results first, fields/tags otherwise; output fields by
               keep mode; listed results become tags; any error drops the point;
  * flatten    consecutive points of a group with the same (rounded) time form a bucket; a closed bucket becomes ONE point
               (group tags only) whose fields are `tagvalues ⋅ delimiter ⋅ fieldname` of every point that carries all `on`
               tags;
  * combine    per bucket of equal time, one merged point for every k-subset of the bucket whose members can be assigned
               to the k lambdas injectively (each member satisfying its lambda);
  * groupBy    stream: dimensions = the sorted listed tags (or all tags of the point under `*`) minus the excluded ones;
               batch: points regrouped by those dimensions, sorted by time, nothing invented, nothing duplicated.
Batch edges: the same function applied to the points of each batch with a fresh history.

Carriers (nodes that do not transform; the output of the nodes above reaches its consumers THROUGH them):
  * log, httpOut, httpPost (no codeField): what leaves the node is what entered it — every point, and every batch with
               exactly the points that entered it, in order — whenever the consumer gets round to reading it;
  * union      every message of either parent leaves the node exactly once and nothing else does (the order is C12's);
  * a node that collects a batch arriving as begin / points / end (edge.BatchBuffer) hands on, per `end`, the latest begin
               and exactly the points that came in since (`Buf.specBuffered`).
Core Lean only.
-/
import Kap.Model.C10
import Kap.Model.C10Buf
namespace Kap.C10

/-! ## Equality of data as maps -/

def mapEqB {α : Type} [DecidableEq α] (a b : List (String × α)) : Bool :=
  (akeys a ++ akeys b).all (fun k => decide (aget a k = aget b k))

def Point.equivB (a b : Point) : Bool :=
  a.name == b.name && a.time == b.time && a.dims == b.dims && a.byName == b.byName &&
  mapEqB a.tags b.tags && mapEqB a.fields b.fields

def BPoint.equivB (a b : BPoint) : Bool := a.time == b.time && mapEqB a.tags b.tags && mapEqB a.fields b.fields

def listEquivB {α : Type} (f : α → α → Bool) : List α → List α → Bool
  | [], [] => true
  | x :: xs, y :: ys => f x y && listEquivB f xs ys
  | _, _ => false

def Batch.equivB (a b : Batch) : Bool :=
  a.name == b.name && a.byName == b.byName && a.tmax == b.tmax && mapEqB a.tags b.tags &&
  listEquivB BPoint.equivB a.points b.points

/-- The map with the given keys whose value at k is `f k` (a key listed twice gives the same entry twice: same map). -/
def tabulate {α : Type} (keys : List String) (f : String → Option α) : List (String × α) :=
  keys.filterMap (fun k => (f k).map (fun v => (k, v)))

/-! ## Histories -/

/-- The earlier points of the group of `p`. -/
def groupHistory (hist : List Point) (p : Point) : List Point := hist.filter (fun q => q.gid = p.gid)

/-- A per-group stream function given by "what does point p produce, knowing the earlier points of its group". -/
def perGroup (f : List Point → Point → List Point) : List Point → List Point → List Point
  | _, [] => []
  | hist, p :: ps => f (groupHistory hist p) p ++ perGroup f (hist ++ [p]) ps

/-! ## where / default / delete / shift -/

def specWhere (e : Expr) (ps : List Point) : List Point := ps.filter (fun p => evalPred e p.fields p.tags = some true)

def specDefaultField (cf : Fields) (fields : Fields) (k : String) : Option Val :=
  match aget fields k with
  | some v => some v
  | none => aget cf k

def specDefaultTag (ct : Tags) (tags : Tags) (k : String) : Option String :=
  match aget ct k with
  | some d => if tagOr tags k = "" then some d else aget tags k
  | none => aget tags k

def specDefaultFT (cf : Fields) (ct : Tags) (fields : Fields) (tags : Tags) : Fields × Tags :=
  (tabulate (akeys fields ++ akeys cf) (specDefaultField cf fields), tabulate (akeys tags ++ akeys ct) (specDefaultTag ct tags))

def specDefault (cf : Fields) (ct : Tags) (p : Point) : Point :=
  let r := specDefaultFT cf ct p.fields p.tags
  { p with fields := r.1, tags := r.2 }

/-- default on a batch: the group tags are defaulted like the tags of a point (so the group may change), every point too. -/
def specDefaultBatch (cf : Fields) (ct : Tags) (b : Batch) : Batch :=
  { b with tags := (specDefaultFT cf ct [] b.tags).2,
           points := b.points.map (fun p => let r := specDefaultFT cf ct p.fields p.tags; { p with fields := r.1, tags := r.2 }) }

def specDeleteAt {α : Type} (ks : List String) (m : List (String × α)) (k : String) : Option α :=
  if ks.contains k then none else aget m k

def specDelete (df dt : List String) (p : Point) : Point :=
  { p with fields := tabulate (akeys p.fields) (specDeleteAt df p.fields),
           tags := tabulate (akeys p.tags) (specDeleteAt dt p.tags),
           dims := p.dims.filter (fun d => !dt.contains d) }

/-- delete on a batch: deleted tags leave the group tags (and with them the dimensions), every point loses the listed keys. -/
def specDeleteBatch (df dt : List String) (b : Batch) : Batch :=
  { b with tags := tabulate (akeys b.tags) (specDeleteAt dt b.tags),
           points := b.points.map (fun p => { p with fields := tabulate (akeys p.fields) (specDeleteAt df p.fields),
                                                     tags := tabulate (akeys p.tags) (specDeleteAt dt p.tags) }) }

def specShift (d : Int) (p : Point) : Point := { p with time := p.time + d }

/-! ## sample -/

/-- "t is a multiple of d", counted — as Go's `Time.Truncate` counts — from Go's zero time (January 1, year 1, 00:00 UTC,
62135596800 s before the Unix epoch), not from the Unix epoch: the two differ for every d that does not divide that offset
(7s, 11s, 13s, 36h, 1w …). A non-positive d truncates nothing. -/
def onGoBoundary (t d : Int) : Bool := decide (d ≤ 0) || (t + Kap.C16.zeroOff) % d == 0

def specSample (n dur : Int) : List Point → List Point :=
  perGroup (fun h p => if (if dur ≠ 0 then onGoBoundary p.time dur else (h.length : Int) % n == 0) then [p] else []) []

/-! ## derivative -/

def isNumeric : Option Val → Bool
  | some (.int _) => true
  | some (.flt _) => true
  | _ => false

/-- The stored previous point: the latest earlier point of the group whose field is numeric. -/
def lastNumeric (field : String) (h : List Point) : Option Point := (h.reverse.find? (fun q => isNumeric (aget q.fields field)))

def specDerivValue (c : DerivCfg) (prev cur : Point) : Option Val :=
  match numToFloat (aget cur.fields c.field), numToFloat (aget prev.fields c.field) with
  | some f1, some f0 =>
    if cur.time = prev.time then none
    else if c.nonNeg && f1 - f0 < 0 then none
    else some (.flt (bitsOf ((f1 - f0) / (Float.ofInt (cur.time - prev.time) / Float.ofInt c.unit))))
  | _, _ => none

def specDerivative (c : DerivCfg) : List Point → List Point :=
  perGroup (fun h p =>
    if !isNumeric (aget p.fields c.field) then [] else
    match lastNumeric c.field h with
    | none => []
    | some prev =>
      match specDerivValue c prev p with
      | none => []
      | some v => [{ p with fields := aset p.fields c.as v }]) []

/-! ## changeDetect -/

/-- The emitted points of ONE group's history, by definition of "change from the last emitted". -/
def emittedOf (fs : List String) (h : List Point) : List Point :=
  h.foldl (fun em q => if changed fs (em.getLast?.map (·.fields)) q.fields then em ++ [q] else em) []

def specChangeDetect (fs : List String) : List Point → List Point :=
  perGroup (fun h p => if changed fs ((emittedOf fs h).getLast?.map (·.fields)) p.fields then [p] else []) []

/-! ## stateCount / stateDuration -/

/-- The current run: the longest suffix of the (evaluable) history on which the predicate is true. -/
def currentRun (e : Expr) (h : List Point) : List Point :=
  ((h.filter (fun q => (evalPred e q.fields q.tags).isSome)).reverse.takeWhile (fun q => evalPred e q.fields q.tags = some true)).reverse

def specStateCount (e : Expr) (as : String) : List Point → List Point :=
  perGroup (fun h p =>
    match evalPred e p.fields p.tags with
    | none => []
    | some false => [{ p with fields := aset p.fields as (.int (-1)) }]
    | some true => [{ p with fields := aset p.fields as (.int ((currentRun e h).length + 1)) }]) []

def specStateDuration (e : Expr) (as : String) (unit : Int) : List Point → List Point :=
  perGroup (fun h p =>
    match evalPred e p.fields p.tags with
    | none => []
    | some false => [{ p with fields := aset p.fields as (.flt (bitsOf (Float.ofInt (-1)))) }]
    | some true =>
      let start := ((currentRun e h).head?.map (·.time)).getD p.time
      [{ p with fields := aset p.fields as (.flt (bitsOf (Float.ofInt (p.time - start) / Float.ofInt unit))) }]) []

/-! ## eval -/

def latest (results : List (String × Val)) (k : String) : Option Val := (results.reverse.find? (fun kv => kv.1 = k)).map (·.2)

/-- The value a reference has when an expression is evaluated: the latest earlier result of that name ("the results of
expressions are available to later expressions"), else the field, else the tag (both ⇒ error), else missing. -/
def specEnv (fields : Fields) (tags : Tags) (results : List (String × Val)) (r : String) : Option Val :=
  match latest results r with
  | some v => some v
  | none =>
    match aget fields r, aget tags r with
    | some _, some _ => none
    | some v, none => some v
    | none, some t => some (.str t)
    | none, none => some .missing

/-- Evaluate the expressions in order; `none` = some expression failed. -/
def specEvalResults (fields : Fields) (tags : Tags) : List Expr → List String → List (String × Val) → Option (List (String × Val))
  | [], _, acc => some acc
  | _ :: _, [], _ => none
  | e :: es, a :: as, acc =>
    let env := e.refs.map (fun r => (r, specEnv fields tags acc r))
    if env.any (fun kv => kv.2.isNone) then none else
    let sc : Scope := env.filterMap (fun kv => kv.2.map (fun v => (kv.1, v)))
    match typeOf sc e, eval sc e with
    | some _, some v => specEvalResults fields tags es as (acc ++ [(a, v)])
    | _, _ => none

/-- The latest result of that name, if it is a string. -/
def strResult (res : List (String × Val)) (t : String) : Option String :=
  match latest res t with
  | some (.str s) => some s
  | _ => none

/-- Tags: every name listed in `.tags()` must be a string result and becomes a tag; all other tags stay. -/
def specEvalTags (c : EvalCfg) (res : List (String × Val)) (tags : Tags) : Option Tags :=
  if c.tags.any (fun t => (strResult res t).isNone) then none else
  some (tabulate (akeys tags ++ c.tags) (fun k => if c.tags.contains k then strResult res k else aget tags k))

/-- What `keep(list)` finds under a name: a result of that name; else — for a name some expression referenced — the field,
else the tag (as a string), else "missing" (that is what "scope first" means in the code and we accept it); else the
original field. -/
def specKeepAt (c : EvalCfg) (fields : Fields) (tags : Tags) (res : List (String × Val)) (k : String) : Option Val :=
  match latest res k with
  | some v => some v
  | none =>
    if (c.exprs.flatMap Expr.refs).contains k then
      match aget fields k, aget tags k with
      | some v, _ => some v
      | none, some t => some (.str t)
      | none, none => some .missing
    else aget fields k

/-- Fields by keep mode: `keep(list)` exactly the listed names (error when one cannot be found); `keep()` all original
fields plus all results (results win); no keep: the results only, minus those turned into tags. -/
def specEvalFields (c : EvalCfg) (res : List (String × Val)) (fields : Fields) (tags : Tags) : Option Fields :=
  if c.keep then
    if c.keepList ≠ [] then
      if c.keepList.any (fun k => (specKeepAt c fields tags res k).isNone) then none
      else some (tabulate c.keepList (specKeepAt c fields tags res))
    else some (tabulate (akeys fields ++ c.as) (fun k => match latest res k with | some v => some v | none => aget fields k))
  else some (tabulate c.as (fun k => if c.tags.contains k then none else latest res k))

/-- Documented output of eval on (fields, tags); `none` = the point is dropped. -/
def specEvalFT (c : EvalCfg) (fields : Fields) (tags : Tags) : Option (Fields × Tags) :=
  match specEvalResults fields tags c.exprs c.as [] with
  | none => none
  | some res =>
    match specEvalTags c res tags with
    | none => none
    | some nt =>
      match specEvalFields c res fields tags with
      | none => none
      | some nf => some (nf, nt)

def specEval (c : EvalCfg) (ps : List Point) : List Point :=
  ps.filterMap (fun p => (specEvalFT c p.fields p.tags).map (fun r => { p with fields := r.1, tags := r.2 }))

/-- Where snapshot ef0888e deviated (repaired): a result named like an existing field or tag was overwritten in the scope
when a LATER expression referenced that name. -/
def evalShadowed (c : EvalCfg) (fields : Fields) (tags : Tags) : Bool :=
  let rec go : List Expr → List String → List String → Bool
    | [], _, _ => false
    | _ :: _, [], _ => false
    | e :: es, a :: as, earlier =>
      e.refs.any (fun r => earlier.contains r && ((aget fields r).isSome || (aget tags r).isSome)) || go es as (earlier ++ [a])
  go c.exprs c.as []

/-! ## flatten -/

/-- Strings joined by a delimiter. -/
def joinWith (delim : String) : List String → String
  | [] => ""
  | v :: vs => vs.foldl (fun acc x => acc ++ delim ++ x) v

/-- The field name a point contributes for one of its fields (`none`: the point lacks one of the `on` tags): the values
of the `on` tags joined by the delimiter, then (unless dropped) the delimiter — only when that prefix is not empty — and
the original field name. -/
def specFlatName (c : FlattenCfg) (tags : Tags) (fname : String) : Option String :=
  if c.on.all (fun t => (aget tags t).isSome) then
    let pre := joinWith c.delim (c.on.map (tagOr tags))
    some (if c.drop then pre else pre ++ (if pre.length > 0 then c.delim else "") ++ fname)
  else none

/-- Fields of a bucket: later points win on equal names. -/
def specFlatFields (c : FlattenCfg) (bucket : List BPoint) : Fields :=
  bucket.foldl (fun acc p => p.fields.foldl (fun a kv =>
    match specFlatName c p.tags kv.1 with
    | some n => aset a n kv.2
    | none => a) acc) []

/-- The open bucket of a group history: the longest suffix with the rounded time of its last point. -/
def openBucket (tol : Int) (h : List Point) : List Point :=
  match h.getLast? with
  | none => []
  | some l => (h.reverse.takeWhile (fun q => roundTo q.time tol = roundTo l.time tol)).reverse

/-- Stream (times non-decreasing within a group): a point whose rounded time differs from the open bucket closes it. -/
def specFlatten (c : FlattenCfg) : List Point → List Point :=
  perGroup (fun h p =>
    match h.head?, h.getLast? with
    | some first, some l =>
      if roundTo p.time c.tol = roundTo l.time c.tol then [] else
      let fields := specFlatFields c ((openBucket c.tol h).map BPoint.ofPoint)
      if fields = [] then [] else
      [{ name := first.name, tags := first.groupTags, fields := fields, time := roundTo l.time c.tol, dims := first.dims, byName := first.byName }]
    | _, _ => []) []

def nonDecreasing (tol : Int) : List Int → Bool
  | [] => true
  | [_] => true
  | a :: b :: r => decide (roundTo a tol ≤ roundTo b tol) && nonDecreasing tol (b :: r)

/-- Precondition of the flatten / combine statements: rounded times do not decrease within a group. -/
def groupTimesOrdered (tol : Int) (ps : List Point) : Bool :=
  ps.all (fun p => nonDecreasing tol ((ps.filter (fun q => q.gid = p.gid)).map (·.time)))

/-- Split into maximal runs of consecutive points with equal rounded time (`cur` = the run being collected). -/
def bucketsGo (tol : Int) : List BPoint → List BPoint → List (List BPoint)
  | cur, [] => if cur = [] then [] else [cur]
  | cur, p :: ps =>
    match cur.head? with
    | none => bucketsGo tol [p] ps
    | some q => if roundTo p.time tol = roundTo q.time tol then bucketsGo tol (cur ++ [p]) ps else cur :: bucketsGo tol [p] ps

def buckets (tol : Int) (pts : List BPoint) : List (List BPoint) := bucketsGo tol [] pts

/-- The point a bucket becomes: the group tags, the documented fields, the (rounded) time of the bucket. -/
def specFlatPoint (c : FlattenCfg) (gtags : Tags) (bk : List BPoint) : BPoint :=
  { tags := gtags, fields := specFlatFields c bk, time := roundTo ((bk.head?.map (·.time)).getD 0) c.tol }

/-- One point per bucket; a bucket without any field is dropped — except the last one of the batch (closed by EndBatch). -/
def specFlatBuckets (c : FlattenCfg) (gtags : Tags) : List (List BPoint) → List BPoint
  | [] => []
  | [bk] => [specFlatPoint c gtags bk]
  | bk :: rest => (if specFlatFields c bk = [] then [] else [specFlatPoint c gtags bk]) ++ specFlatBuckets c gtags rest

def specFlattenBatch (c : FlattenCfg) (b : Batch) : Batch :=
  { b with points := specFlatBuckets c b.tags (buckets c.tol b.points) }

/-! ## combine -/

/-- All injective assignments of the lambdas (in order) to members of `set`: lists `sel` with sel[s] ⊨ lambda s. -/
def assignments {α : Type} (m : Nat → α → Bool) : Nat → Nat → List α → List (List α)
  | 0, _, _ => [[]]
  | l + 1, s, rest =>
    (List.range rest.length).flatMap (fun i =>
      match nth? rest i with
      | some x => if m s x then (assignments m l (s + 1) (rest.eraseIdx i)).map (x :: ·) else []
      | none => [])

def combMatch (c : CombineCfg) (s : Nat) (p : BPoint) : Bool :=
  match nth? c.exprs s with
  | some e => evalPred e p.fields p.tags = some true
  | none => false

def combPoint (c : CombineCfg) (name : String) (dims : List String) (byName : Bool) (sel : List BPoint) : Point :=
  let ft := mergeSet c dims sel
  { name := name, tags := ft.2, fields := ft.1, time := roundTo ((sel.head?.map (·.time)).getD 0) c.tol, dims := dims, byName := byName }

/-- Documented output for one bucket, as a CHECK on an observed list: it must have one point per k-subset that admits an
assignment, in subset order, and each point must be the merge under SOME valid assignment of its subset. -/
def specCombineBucketOk (c : CombineCfg) (name : String) (dims : List String) (byName : Bool) (bucket : List BPoint) (obs : List Point) : Bool :=
  let k := c.exprs.length
  let rb := bucket.map (fun p => { p with time := roundTo p.time c.tol })
  let subsets := (choose k rb).filter (fun s => assignments (combMatch c) k 0 s ≠ [])
  subsets.length == obs.length &&
  (subsets.zip obs).all (fun (s, o) => (assignments (combMatch c) k 0 s).any (fun sel => (combPoint c name dims byName sel).equivB o))

/-- Recorded finding `combine-greedy-assignment`: a subset that admits an assignment on which the greedy
first-match walk of the code fails. -/
def combineGreedyMisses (c : CombineCfg) (bucket : List BPoint) : Bool :=
  let k := c.exprs.length
  (choose k bucket).any (fun s => assignments (combMatch c) k 0 s ≠ [] && (assign (combMatch c) k 0 s).isNone)

/-! ## groupBy -/

def specGroupByDims (c : GroupByCfg) (tags : Tags) : List String :=
  sortStrs ((if c.all then akeys tags else c.dims).filter (fun t => !c.excl.contains t))

def specGroupBy (c : GroupByCfg) (p : Point) : Point :=
  { p with dims := specGroupByDims c p.tags, byName := p.byName || c.byName }

def sortedByTime : List BPoint → Bool
  | [] => true
  | [_] => true
  | a :: b :: r => decide (a.time ≤ b.time) && sortedByTime (b :: r)

/-- Batch regrouping, as a check on the observed batches against all input points: every output batch is a group
(its tags are exactly the dimension values of each of its points), sorted by time; every output point is an input point
and no input point is emitted more often than it came in. -/
def specGroupByBatchOk (c : GroupByCfg) (ins outs : List Batch) : Bool :=
  let inPts := ins.flatMap (·.points)
  let outPts := outs.flatMap (·.points)
  outs.all (fun b => sortedByTime b.points &&
    b.points.all (fun p => mapEqB b.tags (restrictTags p.tags (specGroupByDims c p.tags)))) &&
  outPts.all (fun p => (outPts.filter (fun q => q.equivB p)).length ≤ (inPts.filter (fun q => q.equivB p)).length)

/-! ## Carriers: log, httpOut, httpPost, union -/

def Edge.sameB : Edge → Edge → Bool
  | .stream a, .stream b => listEquivB Point.equivB a b
  | .batch a, .batch b => listEquivB Batch.equivB a b
  | _, _ => false

/-- remove the first element equal (under `f`) to `x` -/
def eraseFirstB {α : Type} (f : α → α → Bool) (x : α) : List α → Option (List α)
  | [] => none
  | y :: ys => if f x y then some ys else (eraseFirstB f x ys).map (y :: ·)

/-- the two lists hold the same elements the same number of times -/
def permB {α : Type} (f : α → α → Bool) : List α → List α → Bool
  | [], ys => ys.isEmpty
  | x :: xs, ys => match eraseFirstB f x ys with
    | some r => permB f xs r
    | none => false

/-- log / httpOut / httpPost: the output is the input — each batch arrives with exactly the points that entered. -/
def specPassThrough (inp obs : Edge) : Bool := Edge.sameB inp obs

/-- union: the messages of both parents, each exactly once, nothing else. -/
def specUnionOk (a b obs : Edge) : Bool :=
  match a, b, obs with
  | .stream x, .stream y, .stream o => permB Point.equivB (x ++ y) o
  | .batch x, .batch y, .batch o => permB Batch.equivB (x ++ y) o
  | _, _, _ => false

end Kap.C10

namespace Kap.C10.Buf

/-- The documented behaviour of a node that buffers a batch arriving message by message, without any heap: per `end` one
batch = the latest begin message and the points that came in since then (an `end` does not clear anything: the points
stay until the next begin). -/
def specGo {α β : Type} : Option β → List α → List (Op α β) → List (Option β × List α)
  | _, _, [] => []
  | _, _, .begin b _ :: r => specGo (some b) [] r
  | b, cur, .point x :: r => specGo b (cur ++ [x]) r
  | b, cur, .end_ :: r => (b, cur) :: specGo b cur r

def specBuffered {α β : Type} (ops : List (Op α β)) : List (Option β × List α) := specGo none [] ops

end Kap.C10.Buf
