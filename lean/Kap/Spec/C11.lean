/-
C11 — the property itself, as stateless functions of the input history (no reduce context, no cache, no
group state, no ZeroTime convention):

  For every batch (or maximal run of equal-time stream points) of a group, the node emits the value the
  function has BY ITS INFLUXQL MEANING (`meaning`, built from the definitions in C11Defs) over exactly
  that batch's values of the field — the values whose kind is the kind established by the batch's first
  point the function accepts —, typed as documented (`outKind`: int stays int where defined), stamped with
  the batch end time, or with the selected point's time for SELECTORS when point times were requested,
  named by `as()` and carrying the group's tags (a selector carries the selected point's tags and fields);
  an empty batch emits nothing unless the function is defined on empty input (count = 0, sum = 0.0).
  Stream mode: the aggregate of a run is emitted when the group's time changes (the last run stays
  pending). Streaming transformations emit, per point, the value defined over the points seen so far in
  the batch (batch mode) / in the group (stream mode).
Core Lean only.
-/
import Kap.Model.C11
namespace Kap.C11.Spec
open Kap.C11

/-- the kind of the point's field, if the function accepts it -/
def usableKind (cfg : Cfg) (p : Pt) : Option Kind :=
  match lookup cfg.field p.fields with
  | some v => if supported cfg.fn v.kind then some v.kind else none
  | none => none

/-- the kind a batch is aggregated at: that of its first point carrying the field with an accepted kind -/
def batchKind (cfg : Cfg) (pts : List Pt) : Option Kind := pts.findSome? (usableKind cfg)

/-- exactly the batch's values of that kind, in arrival order -/
def valuesOf (cfg : Cfg) (k : Kind) (pts : List Pt) : List QP := pts.filterMap (convert cfg k)

/-- what a function means on a non-empty list of values -/
inductive Meaning where
  | value (v : Val)                                 -- an aggregate
  | selected (p : QP)                               -- a selector: one of the input points
  | many (ps : List (Int × Val × Tags))             -- distinct / top / bottom: (point time, value, point tags or [])
  | nothing
deriving DecidableEq, Repr

def meaning (cfg : Cfg) (k : Kind) (xs : List QP) : Meaning :=
  match cfg.fn with
  | .count => .value (.int (wrap64 xs.length))
  | .sum => .value (sumVals k xs)
  | .mean => .value (.flt (fdiv (sumVals k xs).toF (fofNat xs.length)))
  | .median => .value (.flt (medianOf xs))
  | .mode => match modeOf xs with | some v => .value v | none => .nothing
  | .spread => match minVal xs, maxVal xs with | some lo, some hi => .value (hi.sub lo) | _, _ => .nothing
  | .stddev => .value (.flt (stddevOf xs))
  | .min | .max | .first | .last => match select cfg.fn xs with | some p => .selected p | none => .nothing
  | .percentile =>
    match pctIndex xs.length cfg.pct with
    | some i => (match (sortedByVal xs)[i]? with | some p => .selected p | none => .nothing)
    | none => .nothing
  | .distinct => .many ((distinctOf xs).map (fun p => (p.time, p.val, [])))
  | .top => .many ((topOf topLt cfg.n.toNat xs).map (fun p => (p.time, p.val, p.tags)))
  | .bottom => .many ((topOf bottomLt cfg.n.toNat xs).map (fun p => (p.time, p.val, p.tags)))
  | _ => .nothing

def renamed (cfg : Cfg) (fields : Fields) : Fields :=
  if cfg.as_ == cfg.field then fields else
  match lookup cfg.field fields with
  | some v => upsert cfg.as_ v (erase cfg.field fields)
  | none => fields

/-- the output for one batch / run that ended at time `t`, given its meaning -/
def package (cfg : Cfg) (gtags : Tags) (t : Int) : Meaning → List Out
  | .value v => [.point (gtags.map (·.1)) { time := t, tags := gtags, fields := [(cfg.as_, v)] }]
  | .selected p =>
    [.point (gtags.map (·.1)) { time := if cfg.pointTimes then p.time else t, tags := p.tags, fields := renamed cfg p.fields }]
  | .many ps =>
    let pts := ps.map (fun (pt, v, tags) =>
      ({ time := if cfg.pointTimes then pt else t, tags := mergeTags gtags tags, fields := [(cfg.as_, v)] } : OutPt))
    [.batch (pts.foldl (fun m p => max m p.time) t) gtags pts]
  | .nothing => []

/-- the aggregate of one batch (`emptyRule = true`) or of one run of equal-time stream points -/
def specAgg (cfg : Cfg) (gtags : Tags) (t : Int) (pts : List Pt) (emptyRule : Bool) : List Out :=
  match batchKind cfg pts with
  | some k => package cfg gtags t (meaning cfg k (valuesOf cfg k pts))
  | none =>
    if emptyRule && cfg.fn.isEmptyOK then
      package cfg gtags t (.value (if cfg.fn == .count then .int 0 else .flt fzero))
    else []

/-! ### streaming transformations: the value attached to the LAST point of `xs` -/

/-- points the difference reducer looks at: a point at the time of the previously kept point is dropped -/
def keptForDifference : List QP → List QP
  | [] => []
  | x :: r => x :: go x.time r
where go (t : Int) : List QP → List QP
  | [] => []
  | y :: r => if y.time == t then go t r else y :: go y.time r

def lastTwo {α : Type} (l : List α) : Option (α × α) :=
  match l.reverse with
  | b :: a :: _ => some (a, b)
  | _ => none

def transAt (cfg : Cfg) (k : Kind) (xs : List QP) : Option (Int × Val) :=
  match cfg.fn with
  | .elapsed => (lastTwo xs).map (fun (a, b) => (b.time, .int (wrap64 ((b.time - a.time).tdiv cfg.n))))
  | .difference =>
    let kept := keptForDifference xs
    -- the last point counts only if it was kept
    if kept.length == (keptForDifference xs.dropLast).length then none
    else (lastTwo kept).map (fun (a, b) => (b.time, b.val.sub a.val))
  | .cumulativeSum => xs.getLast?.map (fun b => (b.time, sumVals k xs))
  | .movingAverage =>
    let n := cfg.n.toNat
    if n == 0 || xs.length < n then none
    else xs.getLast?.map (fun b => (b.time, .flt (fdiv (sumVals k (xs.drop (xs.length - n))).toF (fofNat n))))
  | _ => none

/-- the transformed points of a batch: one per prefix that yields a value -/
def transAll (cfg : Cfg) (k : Kind) (xs : List QP) : List (Int × Val) :=
  (List.range xs.length).filterMap (fun i => transAt cfg k (xs.take (i + 1)))

def transPt (cfg : Cfg) (gtags : Tags) (tv : Int × Val) : OutPt :=
  { time := tv.1, tags := gtags, fields := [(cfg.as_, tv.2)] }

/-! ### the whole node -/

def specBatch (cfg : Cfg) (b : Batch) : List Out :=
  if cfg.fn.isTransformation then
    match batchKind cfg b.pts with
    | some k => [.batch b.tmax b.gtags ((transAll cfg k (valuesOf cfg k b.pts)).map (transPt cfg b.gtags))]
    | none => [.batch b.tmax b.gtags []]
  else specAgg cfg b.gtags b.tmax b.pts true

/-- the earlier stream points of group `gtags` -/
def earlier (gtags : Tags) (ms : List Msg) : List Pt :=
  ms.filterMap (fun m => match m with | .point g p => if g == gtags then some p else none | _ => none)

/-- the maximal run of equal-time points at the end of `pts` -/
def lastRun (pts : List Pt) : List Pt :=
  match pts.getLast? with
  | none => []
  | some q => (pts.reverse.takeWhile (fun p => p.time == q.time)).reverse

/-- what the node must emit on arrival of a message, given everything that arrived before it -/
def specAt (cfg : Cfg) (before : List Msg) : Msg → List Out
  | .batch b => specBatch cfg b
  | .point gtags p =>
    let prev := earlier gtags before
    if cfg.fn.isTransformation then
      let all := prev ++ [p]
      match batchKind cfg all with
      | some k =>
        (match convert cfg k p with
         | some _ => (match transAt cfg k (valuesOf cfg k all) with
            | some tv => [.point (gtags.map (·.1)) (transPt cfg gtags tv)]
            | none => [])
         | none => [])
      | none => []
    else
      match prev.getLast? with
      | none => []
      | some q => if q.time == p.time then [] else specAgg cfg gtags q.time (lastRun prev) false

/-- the outputs for `ms`, arriving after the history `before` -/
def specFrom (cfg : Cfg) (before : List Msg) : List Msg → List Out
  | [] => []
  | m :: rest => specAt cfg before m ++ specFrom cfg (before ++ [m]) rest

def spec (cfg : Cfg) (ms : List Msg) : List Out := specFrom cfg [] ms

/-! ### typing: the documented kind of every emitted value -/

def valueKindOK (cfg : Cfg) (inKind : Kind) (v : Val) : Bool := outKind cfg.fn inKind == some v.kind

end Kap.C11.Spec
