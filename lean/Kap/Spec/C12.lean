/-
C12 — the property itself, as executable functions over plain inputs (per-parent sequences and an arrival
order), written without reference to how join.go / union.go / circularqueue.go work.

Statement (properties.jsonl): given parents that each deliver their points in time order, join emits for
every group and (tolerance-rounded) timestamp one joined point per k-th occurrence present in all parents
(inner) or in any parent with the configured fill (outer), with fields prefixed by the as() names, and
union emits every parent message exactly once, keeping each parent's order, in non-decreasing time order
overall. The multiset of outputs is the same for every interleaving of the parents, and when the parents
end everything still buffered is flushed.
-/
import Kap.Model.C12Join
import Kap.Model.C12
namespace Kap.C12.Spec
open Kap.C12

/-! ## Queue: a FIFO list -/

inductive QOp where
  | enq (v : Nat)
  | deq (n : Int)
deriving Repr, DecidableEq

/-- enqueue = append at the back, dequeue n = drop n from the front (all of it when n ≥ length, nothing when n ≤ 0). -/
def qStep (l : List Nat) : QOp → List Nat
  | .enq v => l ++ [v]
  | .deq n => l.drop n.toNat

def qRun (init : List Nat) (ops : List QOp) : List Nat := ops.foldl qStep init

/-! ## Union -/

/-- What parent `i` delivered, in its own order (the arrival order restricted to `i`). -/
def parentSeq {β : Type} (i : Nat) (arrivals : List (Nat × β)) : List β :=
  (arrivals.filter (fun a => a.1 == i)).map (fun a => a.2)

def nondecreasing (l : List Int) : Prop := l.Pairwise (· ≤ ·)
instance (l : List Int) : Decidable (nondecreasing l) := by unfold nondecreasing; infer_instance

/-- Every parent delivers in time order. -/
def parentsOrdered (n : Nat) (arrivals : List (Nat × UMsg)) : Prop :=
  ∀ i, i < n → nondecreasing ((parentSeq i arrivals).map (·.time))
instance (n : Nat) (a : List (Nat × UMsg)) : Decidable (parentsOrdered n a) := by
  unfold parentsOrdered; exact Nat.decidableBallLT n _

/-- Exactly once and in each parent's order, after the parents ended: the output (each message tagged with
the parent it came from) restricted to parent `i` IS what parent `i` delivered – nothing lost (flush),
nothing duplicated, nothing invented, order kept. -/
def unionExactlyOnceInOrder (n : Nat) (arrivals out : List (Nat × UMsg)) : Prop :=
  (∀ i, i < n → parentSeq i out = parentSeq i arrivals) ∧ (∀ o ∈ out, o.1 < n)
instance (n : Nat) (a o : List (Nat × UMsg)) : Decidable (unionExactlyOnceInOrder n a o) := by
  unfold unionExactlyOnceInOrder
  exact @instDecidableAnd _ _ (Nat.decidableBallLT n _) inferInstance

/-- While the parents are still running: the output restricted to a parent is a prefix of what it delivered. -/
def unionPrefixInOrder (n : Nat) (arrivals out : List (Nat × UMsg)) : Prop :=
  (∀ i, i < n → parentSeq i out <+: parentSeq i arrivals) ∧ (∀ o ∈ out, o.1 < n)
instance (n : Nat) (a o : List (Nat × UMsg)) : Decidable (unionPrefixInOrder n a o) := by
  unfold unionPrefixInOrder
  exact @instDecidableAnd _ _ (Nat.decidableBallLT n _) inferInstance

/-- Non-decreasing time order overall. -/
def unionSorted (out : List (Nat × UMsg)) : Prop := nondecreasing (out.map (·.2.time))
instance (o : List (Nat × UMsg)) : Decidable (unionSorted o) := by unfold unionSorted; infer_instance

/-! ## Join -/

/-- The messages of one parent that fall on the rounded time `t`, in the parent's order. -/
def occs {α : Type} (rt : α → Int) (t : Int) (seq : List α) : List α := seq.filter (fun m => rt m == t)

/-- Pairing by occurrence: row `k` holds, for every parent, its `k`-th message (if it has one). -/
def rowsOf {α : Type} (cols : List (List α)) : List (List (Option α)) :=
  (List.range ((cols.map List.length).foldl max 0)).map (fun k => cols.map (fun c => c[k]?))

/-- The distinct values of a list, in order of first occurrence. -/
def distinct {κ : Type} [BEq κ] : List κ → List κ
  | [] => []
  | x :: xs => x :: (distinct xs).filter (· != x)

/-- All join sets one group has to produce: for every rounded time at which some parent has a message, one
set per occurrence index `k`, holding the `k`-th message of every parent that has one. -/
def joinSets {α : Type} (parents : Nat) (rt : α → Int) (arrivals : List (Nat × α)) : List (JSet α) :=
  (distinct (arrivals.map (fun a => rt a.2))).flatMap (fun t =>
    (rowsOf ((List.range parents).map (fun i => occs rt t (parentSeq i arrivals)))).map (fun vals => { time := t, values := vals }))

/-- Go-map semantics of the field assignments: a later assignment to the same key wins. -/
def fieldMap (assignments : List (String × String)) : List (String × String) :=
  assignments.foldl (fun a kv => putField kv.1 kv.2 a) []

/-- The value an outer join puts into the fields of a missing parent (`none`: inner join). -/
def fillToken : Fill → Option String
  | .none => none
  | .null => some "nil"
  | .num tok => some tok

/-- The field assignments parent `vp.2` (its `as()` name) contributes: its own fields, prefixed – or, when it
is missing, the fill value under the field names of the first present value. -/
def contribution (cfg : JCfg) (first : JMsg) (vp : Option JMsg × String) : List (String × String) :=
  match vp.1 with
  | some p => p.fields.map (fun kv => (vp.2 ++ cfg.delim ++ kv.1, kv.2))
  | none => first.fields.map (fun kv => (vp.2 ++ cfg.delim ++ kv.1, (fillToken cfg.fill).getD ""))

/-- The joined point of one set, or nothing: an inner join (`fill none`) yields a point only when every
parent is present; an outer join fills the fields of a missing parent (named after the fields of the first
present value) with null / the number. Fields are prefixed with the parent's `as()` name and the
delimiter; name, dimensions and group tags come from the first present value (or `streamName`). -/
def joinedPoint (cfg : JCfg) (s : JSet JMsg) : Option JOut :=
  match s.values.filterMap id with
  | [] => none
  | first :: _ =>
    if !s.values.all Option.isSome && (fillToken cfg.fill).isNone then none else
    some { name := if cfg.sname = "" then first.name else cfg.sname
           time := s.time, byName := first.byName, dims := first.dims, tags := groupTags first
           fields := fieldMap ((s.values.zip cfg.names).flatMap (contribution cfg first)) }

/-- Everything the join node has to emit for the given arrivals (a multiset: compare up to permutation). -/
def joinOutput (cfg : JCfg) (arrivals : List (Nat × JMsg)) : List JOut :=
  (distinct (arrivals.map (·.2.grp))).flatMap (fun g =>
    (joinSets cfg.parents (fun m => goRound cfg.tol m.time) (arrivals.filter (fun a => a.2.grp == g))).filterMap (joinedPoint cfg))

/-- All join sets of all groups. -/
def joinSetsAll (cfg : JCfg) (arrivals : List (Nat × JMsg)) : List (JSet JMsg) :=
  (distinct (arrivals.map (·.2.grp))).flatMap (fun g =>
    joinSets cfg.parents (fun m => goRound cfg.tol m.time) (arrivals.filter (fun a => a.2.grp == g)))

/-! ### Batch joins: the points of the batches of one set are joined by rounded time and occurrence -/

/-- Ascending order (insertion sort). -/
def insertInt (x : Int) : List Int → List Int
  | [] => [x]
  | y :: ys => if x ≤ y then x :: y :: ys else y :: insertInt x ys
def ascending (l : List Int) : List Int := l.foldr insertInt []

def batchPoints (v : Option JMsg) : List BPt :=
  match v with
  | some b => b.points
  | none => []

/-- What parent `vp.2` contributes to one joined batch point: its point's fields, prefixed – or the fill
value under the field names of the set's first point. -/
def contributionB (cfg : JCfg) (fieldNames : List String) (vp : Option BPt × String) : List (String × String) :=
  match vp.1 with
  | some p => p.fields.map (fun kv => (vp.2 ++ cfg.delim ++ kv.1, kv.2))
  | none => fieldNames.map (fun k => (vp.2 ++ cfg.delim ++ k, (fillToken cfg.fill).getD ""))

/-- The joined batch of one set of batches (one per parent, some missing): for every rounded point time, in
ascending order, one point per occurrence index k holding the k-th point of every batch that has one at that
time; inner join keeps only complete rows, outer join fills (field names: those of the first point of the
first non-empty batch). Name, group tags of the first present batch (or `streamName`); `tmax` = the rounded
batch time. -/
def joinedBatch (cfg : JCfg) (s : JSet JMsg) : Option JBOut :=
  match s.values.filterMap id with
  | [] => none
  | first :: _ =>
    let all := s.values.flatMap batchPoints
    let fieldNames := match all with
      | p :: _ => p.fields.map (·.1)
      | [] => []
    let times := ascending (distinct (all.map (fun p => goRound cfg.tol p.time)))
    let rows := times.flatMap (fun t =>
      (rowsOf (s.values.map (fun v => (batchPoints v).filter (fun p => goRound cfg.tol p.time == t)))).map (fun r => (t, r)))
    some { name := if cfg.sname = "" then first.name else cfg.sname, time := s.time, byName := first.byName, tags := first.tags
           points := rows.filterMap (fun tr =>
             if !tr.2.all Option.isSome && (fillToken cfg.fill).isNone then none
             else some (tr.1, fieldMap ((tr.2.zip cfg.names).flatMap (contributionB cfg fieldNames)))) }

/-- Everything a batch join has to emit (a multiset). -/
def joinBatchOutput (cfg : JCfg) (arrivals : List (Nat × JMsg)) : List JBOut :=
  (joinSetsAll cfg arrivals).filterMap (joinedBatch cfg)

/-- Hypothesis of the batch clause: inside every batch the points are in (rounded) time order. -/
def batchPointsOrdered (cfg : JCfg) (arrivals : List (Nat × JMsg)) : Prop :=
  ∀ a ∈ arrivals, nondecreasing (a.2.points.map (fun p => goRound cfg.tol p.time))
instance (cfg : JCfg) (arrivals : List (Nat × JMsg)) : Decidable (batchPointsOrdered cfg arrivals) := by
  unfold batchPointsOrdered; infer_instance

/-! ### join.on(dimensions): a specific-group point is joined with the general-group point of its time -/

/-- An arrival at a join with `on()`: parent, message, whether the message is grouped by MORE dimensions than
`on()` ("specific"), and its general group (the group by the `on()` dimensions only). -/
structure OnArrival where
  src : Nat
  msg : JMsg
  specific : Bool
  general : String
deriving DecidableEq, Repr

/-- Everything a join with `on()` has to emit: one joined point per specific point, built from it and – if
there is one – the general point of another parent with the same general group and the same rounded time
(which takes the specific point's group tags and dimensions); a specific point without partner is emitted
alone under an outer join; general points alone yield nothing. -/
def joinOnOutput (cfg : JCfg) (arr : List OnArrival) : List JOut :=
  arr.filterMap (fun a =>
    if !a.specific then none else
    let t := goRound cfg.tol a.msg.time
    let partner := arr.find? (fun b => !b.specific && b.src != a.src && b.general == a.general && goRound cfg.tol b.msg.time == t)
    let values := (List.range cfg.parents).map (fun i =>
      if i = a.src then some a.msg else
      match partner with
      | some b => if i = b.src then
          some { b.msg with tags := groupTags a.msg, dims := a.msg.dims, byName := a.msg.byName, grp := a.msg.grp }
        else none
      | none => none)
    joinedPoint cfg { time := t, values := values })

/-- The domain on which the `on()` clause is claimed: two parents, every arrival from one of them, each parent
consistently specific or general and at most one of them specific, specific points of one group have one general
group (the general group is a function of the group), at most one general point per general group and rounded
time, and per parent and general group the rounded times never go back. (The conjuncts "parent index in range",
"at most one specific parent" and "one general group per group" were added when the proof attempt showed the
clause false without them: `Kap.Props.C12.on_both_parents_specific_join_each_other`,
`Kap.Props.C12.on_group_with_two_general_groups_mispairs`; they hold for every real on() join: the general group
is computed from the point's own tags.) -/
def onDomain (cfg : JCfg) (arr : List OnArrival) : Prop :=
  cfg.parents = 2 ∧
  (∀ a ∈ arr, a.src < cfg.parents) ∧
  (∀ a ∈ arr, ∀ b ∈ arr, a.src = b.src → a.specific = b.specific) ∧
  (∀ a ∈ arr, ∀ b ∈ arr, a.specific = true → b.specific = true → a.src = b.src) ∧
  (∀ a ∈ arr, ∀ b ∈ arr, a.specific = true → b.specific = true → a.msg.grp = b.msg.grp → a.general = b.general) ∧
  ((arr.filter (fun a => !a.specific)).map (fun a => (a.general, goRound cfg.tol a.msg.time))).Nodup ∧
  (∀ i, i < cfg.parents → ∀ g ∈ distinct (arr.map (·.general)),
    nondecreasing ((arr.filter (fun a => a.src == i && a.general == g)).map (fun a => goRound cfg.tol a.msg.time)))
instance (cfg : JCfg) (arr : List OnArrival) : Decidable (onDomain cfg arr) := by
  unfold onDomain
  exact @instDecidableAnd _ _ inferInstance (@instDecidableAnd _ _ inferInstance (@instDecidableAnd _ _ inferInstance
    (@instDecidableAnd _ _ inferInstance (@instDecidableAnd _ _ inferInstance (@instDecidableAnd _ _ inferInstance (Nat.decidableBallLT _ _))))))

/-- Hypothesis of the join clauses: within every group, every parent's (rounded) times never go back.
`steps` lists what each parent sent in arrival order: (parent, group, time) of points AND barriers. -/
def joinOrdered (cfg : JCfg) (steps : List (Nat × String × Int)) : Prop :=
  ∀ i, i < cfg.parents → ∀ g ∈ distinct (steps.map (·.2.1)),
    nondecreasing (((steps.filter (fun s => s.1 == i && s.2.1 == g)).map (fun s => goRound cfg.tol s.2.2)))
instance (cfg : JCfg) (steps : List (Nat × String × Int)) : Decidable (joinOrdered cfg steps) := by
  unfold joinOrdered; exact Nat.decidableBallLT _ _

end Kap.C12.Spec
