/-
Spec for property C13, independent of the model: it speaks only about what was OBSERVED.

"For every TICKscript that defines a task, the formatted script parses and defines a task with the identical
pipeline graph and node properties, and formatting is stable after at most one further pass. Likewise a
pipeline rendered back to TICKscript, and a lambda or pipeline written to JSON and read back, denote the same
pipeline/expression (same functions, literals, operators and precedence)."

A case is a history of events: trees that came out of a parser or a JSON decoder, texts that came out of a
formatter, pipelines (DOT graph + property JSON) built from the current text. The clauses:

  no-panic              nothing panicked
  formatted-parses      every text a formatter produced is accepted by the parser
  meaning-preserved     every tree parsed from a formatted text denotes the same thing as the first tree of
                        the case: same shape, functions, operators, literal VALUES (spelling – quotes style,
                        number base, duration unit, redundant parentheses, comments – is free; a negative
                        number literal and unary minus of the positive one are the same thing)
  json-decodes / json-meaning-preserved   the same for a tree that went through JSON
  format-stable         formatting the re-parsed text gives the same text again after at most one further pass
  pipeline-identical    every pipeline built in the case has the DOT graph and the property JSON of the first
-/
namespace Kap.C13.Spec

/-- generic tree read back from a prefix dump (see harness/c13: dumpNode) -/
inductive T where
  | node (tag : String) (fields : List String) (kids : List T)
  deriving Repr, Inhabited

/-- number of plain fields and how the number of children is found, per tag -/
def arity (tag : String) (rest : List String) : Option (Nat × Nat) :=
  match tag with
  | "num" => match rest with
    | "i" :: _ => some (3, 0)
    | "f" :: _ => some (2, 0)
    | _ => none
  | "dur" => some (2, 0)
  | "bool" => some (1, 0)
  | "str" => some (2, 0)
  | "rx" => some (2, 0)
  | "ref" => some (1, 0)
  | "id" => some (1, 0)
  | "star" => some (0, 0)
  | "nil" => some (0, 0)
  | "comment" => some (0, 0)
  | "unknown" => some (0, 0)
  | "un" => some (1, 1)
  | "bin" => some (2, 2)
  | "lambda" => some (0, 1)
  | "chain" => some (1, 2)
  | "decl" => some (0, 2)
  | "typedecl" => some (0, 2)
  | "dbrp" => some (0, 2)
  | "call" => match rest with
    | _ :: n :: _ => n.toNat?.map (fun k => (2, k))
    | _ => none
  | "func" => match rest with
    | _ :: _ :: n :: _ => n.toNat?.map (fun k => (3, k))
    | _ => none
  | "list" => match rest with
    | n :: _ => n.toNat?.map (fun k => (1, k))
    | _ => none
  | "program" => match rest with
    | n :: _ => n.toNat?.map (fun k => (1, k))
    | _ => none
  | _ => none

mutual
def readT : Nat → List String → Option (T × List String)
  | 0, _ => none
  | f + 1, ts =>
    match ts with
    | [] => none
    | tag :: rest =>
      match arity tag rest with
      | none => none
      | some (nf, nk) =>
        if rest.length < nf then none else
        match readTs f nk (rest.drop nf) with
        | some (ks, rest') => some (.node tag (rest.take nf) ks, rest')
        | none => none
def readTs : Nat → Nat → List String → Option (List T × List String)
  | 0, _, _ => none
  | _ + 1, 0, ts => some ([], ts)
  | f + 1, k + 1, ts =>
    match readT f ts with
    | some (t, rest) =>
      match readTs f k rest with
      | some (ks, rest') => some (t :: ks, rest')
      | none => none
    | none => none
end

def readDump (ts : List String) : Option T :=
  match readT (ts.length + 2) ts with
  | some (t, []) => some t
  | _ => none

def stripMinus (s : String) : Option String :=
  match s.toList with
  | '-' :: rest => some (String.ofList rest)
  | _ => none

def isComment : T → Bool
  | .node "comment" _ _ => true
  | _ => false

mutual
/-- the MEANING of a tree as a token list: presentation-only fields erased -/
def meaning : T → List String
  | .node "num" ["i", _, v] _ =>
    match stripMinus v with
    | some a => ["un", "-", "num", "i", a]
    | none => ["num", "i", v]
  | .node "num" ["f", v] _ =>
    match stripMinus v with
    | some a => ["un", "-", "num", "f", a]
    | none => ["num", "f", v]
  | .node "dur" [ns, _] _ =>
    match stripMinus ns with
    | some a => ["un", "-", "dur", a]
    | none => ["dur", ns]
  | .node "str" [_, l] _ => ["str", l]
  | .node "rx" [re, _] _ => ["rx", re]
  | .node "bin" [op, _] ks => "bin" :: op :: meanings false ks
  | .node "program" _ ks =>
    "program" :: toString (ks.countP (fun k => !isComment k)) :: meanings true ks
  | .node tag fs ks => tag :: fs ++ meanings false ks
def meanings (skipComments : Bool) : List T → List String
  | [] => []
  | k :: ks => (if skipComments && isComment k then [] else meaning k) ++ meanings skipComments ks
end

def sameMeaning (a b : T) : Bool := meaning a == meaning b

/-- what the implementation was seen doing -/
inductive Ev where
  | tree (via : String) (t : Option T)      -- via ∈ parse | reparse | json | script | sreparse ; none = rejected
  | text (via : String) (s : String)        -- via ∈ fmt | sfmt | ptick
  | pipe (via : String) (r : Option (String × String))  -- DOT, property JSON ; none = no pipeline
  | source (s : String)                      -- the script text the case starts from
  | panic (op : String)
  deriving Inhabited

structure SpecState where
  orig : Option T := none          -- the first tree of the case (what must be preserved)
  lastText : Option String := none -- the last formatter output
  prevStable : Option String := none  -- formatter output of the previous pass (since the last re-parse)
  passes : Nat := 0
  afterText : Bool := false
  pipe0 : Option (String × String) := none
  dead : Bool := false             -- the original input was rejected / defines no task: nothing is demanded
  script : Bool := false
  src : String := ""

/-- one step of the spec; `some (clause, detail)` = the property is false of this history -/
def specStep (st : SpecState) (ev : Ev) : SpecState × Option (String × String) :=
  if st.dead then (st, none) else
  match ev with
  | .panic op => (st, some ("no-panic", op))
  | .source s => ({ st with src := s }, none)
  | .tree via t =>
    let isFirst := st.orig.isNone && (via == "parse" || via == "script" || via == "build")
    if isFirst then
      match t with
      | none => ({ st with dead := true }, none)
      | some x => ({ st with orig := some x, script := via == "script" }, none)
    else
      match t, st.orig with
      | none, _ =>
        if via == "json" then (st, some ("json-decodes", via)) else (st, some ("formatted-parses", via))
      | some x, some o =>
        if sameMeaning x o then ({ st with afterText := false }, none)
        else (st, some (if via == "json" then "json-meaning-preserved" else "meaning-preserved", via))
      | some _, none => (st, none)
  | .text via s =>
    -- stability: the text of this pass against the text of the previous pass
    let bad :=
      match st.lastText with
      | some prev =>
        if via == "ptick" then false
        else if prev == s then false
        else if st.passes < 2 then false   -- one further pass is allowed
        else true
      | none => false
    let st' := { st with lastText := some s, passes := (if via == "ptick" then 0 else st.passes + 1), afterText := true }
    if bad then (st', some ("format-stable", via)) else (st', none)
  | .pipe via r =>
    match st.pipe0, r with
    | none, none => ({ st with dead := true }, none)     -- the script does not define a task
    | none, some p => ({ st with pipe0 := some p }, none)
    | some _, none => (st, some ("pipeline-identical", via ++ ":no-pipeline"))
    | some p0, some p =>
      if p0.1 != p.1 then (st, some ("pipeline-identical", via ++ ":dot"))
      else if p0.2 != p.2 then (st, some ("pipeline-identical", via ++ ":properties"))
      else (st, none)

/-- outcome of a whole history: the first event that breaks a clause, with the trees / texts involved -/
structure Failure where
  clause : String
  detail : String
  orig : Option T := none
  got : Option T := none
  prevText : Option String := none
  gotText : Option String := none
  src : String := ""
  props0 : Option String := none    -- pipeline events: property JSON of the first pipeline of the case …
  propsGot : Option String := none  -- … and of the pipeline that differs

/-! ### Recorded deviations (findings/C13.txt). Each is a decidable predicate on what was observed; a failure
that no clause explains stays a violation. -/

mutual
def hasMinInt64 : T → Bool
  | .node "num" ["i", _, v] _ => v == "-9223372036854775808"
  | .node _ _ ks => hasMinInt64L ks
def hasMinInt64L : List T → Bool
  | [] => false
  | k :: ks => hasMinInt64 k || hasMinInt64L ks
end

/-- `int-min64`: the tree holds the integer literal -2^63; its text `-9223372036854775808` is rejected because
the parser reads the digits as a positive int64 before applying the sign. -/
def devIntMin64 (f : Failure) : Bool :=
  f.clause == "formatted-parses" &&
  match f.orig with
  | some o => hasMinInt64 o
  | none => false

mutual
/-- the statement is printed with a leading `(`: a parenthesised binary node at the start of its left spine -/
def startsParen : T → Bool
  | .node "bin" [_, p] ks => p == "1" || startsParenHead ks
  | _ => false
def startsParenHead : List T → Bool
  | k :: _ => startsParen k
  | [] => false
end

mutual
/-- the statement is printed with a leading `-`: unary minus or a negative literal at the start of its left spine -/
def startsMinus : T → Bool
  | .node "bin" [_, p] ks => p != "1" && startsMinusHead ks
  | .node "un" [op] _ => op == "-"
  | .node "num" ["i", _, v] _ => (stripMinus v).isSome
  | .node "num" ["f", v] _ => (stripMinus v).isSome
  | .node "dur" [ns, _] _ => (stripMinus ns).isSome
  | _ => false
def startsMinusHead : List T → Bool
  | k :: _ => startsMinus k
  | [] => false
end

mutual
/-- the statement is printed with a bare identifier as its LAST token (so that a following `(` makes it a call) -/
def endsBareId : T → Bool
  | .node "id" _ _ => true
  | .node "un" _ ks => endsBareIdLast ks
  | .node "lambda" _ ks => endsBareIdLast ks
  | .node "decl" _ ks => endsBareIdLast ks
  | .node "bin" [_, p] ks => p != "1" && endsBareIdLast ks
  | _ => false
def endsBareIdLast : List T → Bool
  | [k] => endsBareId k
  | _ :: ks => endsBareIdLast ks
  | [] => false
end

/-- the statement ends in an expression that a following binary `-` continues -/
def endsInExpr : T → Bool
  | .node "decl" _ [_, .node tag _ _] => tag != "chain" && tag != "list"
  | .node tag _ _ => tag != "chain" && tag != "list" && tag != "typedecl" && tag != "dbrp" && tag != "decl"

/-- `b` follows `a` and is glued to it by Format: TICKscript has no statement separator and Format drops the
parentheses around a non-binary operand -/
def strayPair (a b : T) : Bool := (startsParen b && endsBareId a) || (startsMinus b && endsInExpr a)

def hasStray : List T → Bool
  | a :: b :: rest => strayPair a b || hasStray (b :: rest)
  | _ => false

/-- `stray-expr-statement`: the script has an expression statement that is printed with a leading `(` right after
a statement printed with a trailing bare identifier (`var x = (a)  (b + c)` is printed `var x = a  (b + c)` = the
call `a(b + c)`), or with a leading `-` right after a statement that ends in an expression (`var x = 1  (-2)` is
printed `var x = 1  -2` = `1 - 2`). -/
def devStrayExprStmt (f : Failure) : Bool :=
  (f.clause == "meaning-preserved" || f.clause == "formatted-parses") && f.detail == "sreparse" &&
  match f.orig with
  | some (.node "program" _ ks) => hasStray (ks.filter (fun k => !isComment k))
  | _ => false

mutual
/-- the absolute values of the integer literals beyond 2^53 (where float64 no longer holds every integer) in a tree -/
def bigInts : T → List Nat
  | .node "num" ["i", _, v] _ =>
    match v.toInt? with
    | some x => if x.natAbs > 9007199254740992 then [x.natAbs] else []
    | none => []
  | .node _ _ ks => bigIntsL ks
def bigIntsL : List T → List Nat
  | [] => []
  | k :: ks => bigInts k ++ bigIntsL ks
end

mutual
/-- the integers beyond 2^53 that are arguments of a property call `.field(name, value)` (field defaults of |default()) -/
def bigIntFieldDefaults : T → List Nat
  | .node "func" [_, name, _] ks => (if name == "field" then bigIntsL ks else []) ++ bigIntFieldDefaultsL ks
  | .node _ _ ks => bigIntFieldDefaultsL ks
def bigIntFieldDefaultsL : List T → List Nat
  | [] => []
  | k :: ks => bigIntFieldDefaults k ++ bigIntFieldDefaultsL ks
end

/-- float64(n) for a natural number, as a natural number: 53 significant bits, ties to even -/
def round53 (a : Nat) : Nat :=
  if a < 9007199254740992 then a else
  let sh := Nat.log2 a + 1 - 53
  let q := a >>> sh
  let rem := a - (q <<< sh)
  let half := 1 <<< (sh - 1)
  let q' := if rem > half || (rem == half && q % 2 == 1) then q + 1 else q
  q' <<< sh

/-- a text cut into maximal runs of digits and of other characters -/
def splitRuns (cs : List Char) : List (Bool × List Char) :=
  cs.foldr (fun c acc =>
    let d := c.isDigit
    match acc with
    | (d', chunk) :: rest => if d == d' then (d, c :: chunk) :: rest else (d, [c]) :: acc
    | [] => [(d, [c])]) []

def natOfRun (cs : List Char) : Nat := cs.foldl (fun a c => a * 10 + (c.toNat - 48)) 0

/-- the two property JSONs are the same text except for digit runs that are one of `ints` in `a` and a decimal that
rounds to the same float64 in `b`; at least one such difference -/
def differOnlyByFloatedInts (ints : List Nat) (a b : String) : Bool :=
  let ra := splitRuns a.toList
  let rb := splitRuns b.toList
  ra.length == rb.length &&
  (ra.zip rb).all (fun (x, y) =>
    x == y || (x.1 && y.1 && ints.contains (natOfRun x.2) && round53 (natOfRun y.2) == round53 (natOfRun x.2))) &&
  (ra.zip rb).any (fun (x, y) => x != y)

/-- `default-int-field`: DefaultNode.UnmarshalJSON lets encoding/json decode the field defaults into
`map[string]interface{}`, so an integer default comes back from pipeline JSON as a float64; beyond 2^53 the
property JSON of the decoded pipeline shows another number (9223372036854775807 -> 9223372036854776000). The clause
holds exactly when the two property JSONs differ in nothing but such numbers: an integer field default beyond 2^53
of the script on one side, a decimal that rounds to the same float64 on the other. -/
def devDefaultIntField (f : Failure) : Bool :=
  f.clause == "pipeline-identical" && f.detail == "pjson:properties" &&
  match f.orig, f.props0, f.propsGot with
  | some o, some a, some b =>
    let ints := bigIntFieldDefaults o
    !ints.isEmpty && differOnlyByFloatedInts ints a b
  | _, _, _ => false

def deviationOf (f : Failure) : Option String :=
  if devIntMin64 f then some "int-min64"
  else if devStrayExprStmt f then some "stray-expr-statement"
  else if devDefaultIntField f then some "default-int-field"
  else none

/-- Runs the spec over a history. Returns the keys of the recorded deviations met (the history is then judged
relative to the deviated tree) and the first unexplained failure. -/
def specRun (evs : List Ev) : List String × Option Failure :=
  let rec go (st : SpecState) (known : List String) : List Ev → List String × Option Failure
    | [] => (known.reverse, none)
    | e :: es =>
      match specStep st e with
      | (st', some (c, d)) =>
        let f : Failure := { clause := c, detail := d, orig := st.orig,
                             got := (match e with | .tree _ t => t | _ => none),
                             prevText := st.lastText, src := st.src,
                             gotText := (match e with | .text _ s => some s | _ => none),
                             props0 := st.pipe0.map (·.2),
                             propsGot := (match e with | .pipe _ (some p) => some p.2 | _ => none) }
        match deviationOf f with
        | some k =>
          -- continue relative to what the deviation produced
          let st'' := match e with
            | .tree _ (some t) => { st' with orig := some t, pipe0 := none }   -- the deviated program is the new reference, for its pipeline too
            | .tree _ none => { st' with dead := true }
            | _ => st'
          go st'' (if known.contains k then known else k :: known) es
        | none => (known.reverse, some f)
      | (st', none) => go st' known es
  go {} [] evs

end Kap.C13.Spec
