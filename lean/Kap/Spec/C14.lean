/-
C14 — the property itself, stated over the history of API requests and their ANSWERS, independently of how the
service stores anything (no transactions, no association keys, no TaskMaster calls, no rollback loop).

Statement (properties.jsonl): through any sequence of create, update (script, dbrps, vars, id, template), enable,
disable and delete requests and restarts, the API shows exactly the tasks that were successfully defined with their
last accepted definition; a task is executing iff it is enabled and its start succeeded; after a restart every
enabled task is executing again; updating a template changes all tasks created from it or none of them.

The catalogue `Cat` is what a client who only remembers its accepted requests expects to see:
  * an ACCEPTED request (2xx) has its declared effect (`accept`); a REJECTED one (4xx/5xx) has none;
  * a task's definition: script = the one given, or its template's current script; dbrps = those the script
    declares, else the ones given explicitly; vars/status/template as last given;
  * a start is attempted when a task becomes enabled, is renamed while enabled, is re-synchronised by a template
    update while enabled, and for every enabled task at a restart; `started` is the outcome of the most recent
    attempt (the oracle `startOK`); a task is executing iff it is enabled and started;
  * a task that dies at run time (`Op.die`) is no longer started, hence not executing, until its next start;
  * an accepted template update re-synchronises ALL tasks whose template it is; a rejected one NONE.
  * batch tasks: "its start succeeded" means the start AND the batching succeeded — `startOK` is the three-way oracle
    of the model's vocabulary (builds ∧ TaskMaster.StartTask accepts ∧ StartBatching accepts); a start whose batching
    is refused is a failed start: the task is not executing afterwards.
  * snapshots (`Snaps`): the snapshot saved for a task ID stays stored — through disable / enable, updates, restarts
    and crashes — until the task is deleted, and a task that is started is restored from the snapshot stored under
    its ID at that moment.
The request/answer vocabulary (`Op`, `TaskReq`, `Resp`, `Task`, the oracle `Env`/`startOK`) is shared with the model.
Core Lean only.
-/
import Kap.Model.C14
namespace Kap.C14

/-- What a client expects the API to show. -/
structure Cat where
  tasks : String → Option Task := fun _ => none
  tmpls : String → Option String := fun _ => none      -- template id ↦ script
  started : String → Bool := fun _ => false            -- outcome of the most recent start attempt

/-- executing ⇔ enabled and its start succeeded. -/
def Cat.executing (c : Cat) (id : String) : Bool :=
  match c.tasks id with
  | some t => t.enabled && c.started id
  | none => false

/-- dbrps of a definition: the ones the script declares, else the explicit ones. -/
def dbrpsOf (env : Env) (script : String) (explicit : List String) : List String :=
  if (env script).pdbrps.isEmpty then explicit else (env script).pdbrps

/-- The definition a create request asks for. -/
def createDef (env : Env) (c : Cat) (r : TaskReq) : Task :=
  { script := if r.tmpl ≠ "" then (c.tmpls r.tmpl).getD "" else r.script, vars := r.vars, tmpl := r.tmpl,
    dbrps := dbrpsOf env (if r.tmpl ≠ "" then (c.tmpls r.tmpl).getD "" else r.script) r.dbrps,
    enabled := r.status = some true }

/-- The ID an update request leaves the task under. -/
def updateId (id : String) (r : TaskReq) : String := if r.newId ≠ "" then r.newId else id

/-- The template and the script an update request asks for (a templated task follows its template's current script). -/
def updateTmpl (orig : Task) (r : TaskReq) : String := if r.tmpl ≠ "" then r.tmpl else orig.tmpl
def updateScriptOf (c : Cat) (orig : Task) (r : TaskReq) : String :=
  if updateTmpl orig r ≠ "" then (c.tmpls (updateTmpl orig r)).getD "" else if r.script ≠ "" then r.script else orig.script

/-- The definition an update request asks for (only the given fields change). -/
def updateDef (env : Env) (c : Cat) (orig : Task) (r : TaskReq) : Task :=
  { script := updateScriptOf c orig r,
    vars := if r.vars ≠ "v0" then r.vars else orig.vars, tmpl := updateTmpl orig r,
    dbrps := dbrpsOf env (updateScriptOf c orig r) (if r.dbrps.isEmpty then orig.dbrps else r.dbrps),
    enabled := match r.status with | some b => b | none => orig.enabled }

/-- A task of a template with script `oldScript` after the template became (`newId`, `newScript`). -/
def resync (env : Env) (oldScript newId newScript : String) (t : Task) : Task :=
  { t with tmpl := newId, script := newScript,
           dbrps := if (env newScript).pdbrps.isEmpty then
                      (if (env oldScript).pdbrps.isEmpty then t.dbrps else [])   -- explicit ones, if it had any
                    else (env newScript).pdbrps }

def setTask (c : Cat) (id : String) (t : Option Task) : Cat :=
  { c with tasks := fun i => if i = id then t else c.tasks i }
def setStarted (c : Cat) (id : String) (b : Bool) : Cat :=
  { c with started := fun i => if i = id then b else c.started i }

/-- The effect of an ACCEPTED request. -/
def accept (env : Env) (fail : List String) (c : Cat) : Op → Cat
  | .create id r =>
    setStarted (setTask c id (some (createDef env c r))) id
      ((createDef env c r).enabled && startOK env fail id (createDef env c r))
  | .update id r =>
    match c.tasks id with
    | none => c
    | some orig =>
      -- a start is attempted when the task becomes enabled or is renamed while enabled
      if (updateDef env c orig r).enabled && (!orig.enabled || decide (updateId id r ≠ id)) then
        setStarted (setTask (setTask c id none) (updateId id r) (some (updateDef env c orig r))) (updateId id r)
          (startOK env fail (updateId id r) (updateDef env c orig r))
      else if updateId id r ≠ id then
        setStarted (setTask (setTask c id none) (updateId id r) (some (updateDef env c orig r))) (updateId id r) (c.started id)
      else setTask (setTask c id none) (updateId id r) (some (updateDef env c orig r))
  | .delete id => setStarted (setTask c id none) id false
  | .tcreate id s => { c with tmpls := fun i => if i = id then some s else c.tmpls i }
  | .tupdate id newId script =>
    match c.tmpls id with
    | none => c
    | some oldScript =>
      let nid := if newId ≠ "" then newId else id
      let ns := if script ≠ "" then script else oldScript
      { tmpls := fun i => if i = nid then some ns else if i = id then none else c.tmpls i,
        tasks := fun i => match c.tasks i with
          | some t => if t.tmpl = id then some (resync env oldScript nid ns t) else some t
          | none => none,
        started := fun i => match c.tasks i with
          | some t => if t.tmpl = id ∧ t.enabled then startOK env fail i (resync env oldScript nid ns t) else c.started i
          | none => c.started i }
  | .tdelete id => { c with tmpls := fun i => if i = id then none else c.tmpls i }
  | .restart =>
    { c with started := fun i => match c.tasks i with
        | some t => if t.enabled then startOK env fail i t else c.started i
        | none => c.started i }
  -- the task died on its own: it is no longer "started" (its definition and status stay)
  | .die id => setStarted c id false

/-- The catalogue after a request with the given answer: accepted ⇒ its effect, rejected ⇒ nothing. -/
def specStep (env : Env) (fail : List String) (c : Cat) (op : Op) (resp : Resp) : Cat :=
  if resp = .ok then accept env fail c op else c

/-- **All or none** for a template update, judged on what the API showed before and after the request:
every task created from the template now follows the new definition, or every one of them is exactly as before. -/
def allOrNone (env : Env) (ids : List String) (before after : String → Option Task)
    (tid oldScript newId newScript : String) : Bool :=
  let mine := ids.filter (fun i => match before i with | some t => t.tmpl == tid | none => false)
  mine.all (fun i => after i == (before i).map (resync env oldScript newId newScript)) ||
  mine.all (fun i => after i == before i)

/-! ### Task snapshots (Service.SaveSnapshot / HasSnapshot / LoadSnapshot, deleteTask) -/

/-- Stored snapshots as TaskMaster sees them: task ID ↦ payload. -/
abbrev Snaps := List (String × String)

def Snaps.get (s : Snaps) (id : String) : Option String := (s.find? (fun p => p.1 == id)).map (·.2)

/-- The snapshotter saved a snapshot of task `id`. -/
def snapSave (s : Snaps) (id payload : String) : Snaps := (id, payload) :: s.filter (fun p => p.1 != id)

/-- The effect of a COMPLETED request on the stored snapshots: only deleting a task removes its snapshot (whatever
the answer: deleteTask removes the snapshot before it looks the task up); disable / enable, every other update, template
requests, restarts and run-time deaths leave every snapshot in place. (A rename keeps the snapshot under the OLD ID:
the code never moves it.) -/
def snapStep (s : Snaps) : Op → Snaps
  | .delete id => s.filter (fun p => p.1 != id)
  | _ => s

/-- The snapshots the transaction PREFIX of an INTERRUPTED request leaves (crash point / storage fault): deleteTask
removes the snapshot in its FIRST transaction (snapshots.Delete, before tasks.Get — its error is ignored), and no other
request writes the snapshot bucket. `first` = the first transaction of the request committed. -/
def snapPrefix (s : Snaps) (op : Op) (first : Bool) : Snaps := if first then snapStep s op else s

/-! ### Recorded deviations (findings/C14.txt): decidable clauses on the input, with the deviated output -/

/-- The task (ID, definition) whose start an accepted create/update would attempt. -/
def attempted (env : Env) (c : Cat) : Op → Option (String × Task)
  | .create id r => if (createDef env c r).enabled then some (id, createDef env c r) else none
  | .update id r =>
    match c.tasks id with
    | none => none
    | some orig =>
      if (updateDef env c orig r).enabled && (!orig.enabled || decide (updateId id r ≠ id)) then
        some (updateId id r, updateDef env c orig r) else none
  | _ => none

/-- `start-failure-after-commit`: a create/update whose definition is stored and whose start is then refused is
answered 500 although the definition stays (enabled, not executing). Clause: the request attempts a start and the
oracle refuses it; deviated output: the catalogue of the accepted request (with `started = false` for that task). -/
def devStartFail (env : Env) (fail : List String) (c : Cat) (op : Op) (resp : Resp) : Bool :=
  resp = .fail && (match attempted env c op with | some (i, t) => !startOK env fail i t | none => false)

def devStartFailOut (env : Env) (fail : List String) (c : Cat) (op : Op) : Cat := accept env fail c op

/-! ### What an answer 500 leaves behind (create / update / delete / template create / delete) -/

/-- The new ID of an update is taken by another task: the request is answered 500 before anything is written. -/
def renameTaken (c : Cat) : Op → Bool
  | .update id r => decide (updateId id r ≠ id) && (c.tasks (updateId id r)).isSome
  | _ => false

/-- The decidable clause: a request answered 500 leaves a partial effect iff its definition could be committed and
the start it attempts is refused (start or batching). -/
def leaves500 (env : Env) (fail : List String) (c : Cat) (op : Op) : Bool :=
  devStartFail env fail c op .fail && !renameTaken c op

/-- The catalogue after a request answered 500: inside the clause exactly the catalogue of the ACCEPTED request (the
definition is stored, the task is enabled, `started` = false: not executing); outside it nothing changed. -/
def effect500 (env : Env) (fail : List String) (c : Cat) (op : Op) : Cat :=
  if leaves500 env fail c op then accept env fail c op else c

end Kap.C14
