/-
C14 — "the API shows exactly the tasks that were defined", for the PAGED and FILTERED listings.

GET /tasks and GET /templates take `pattern`, `offset` and `limit`. What such a request must show is stated on the
catalogue `Cat` alone (Kap/Spec/C14.lean), independently of any index, loop or counter:

    page = the catalogue's entries, sorted by ID, restricted to the IDs the pattern denotes,
           without the first `offset` of THOSE, cut after `limit` of them

(`offset` and `limit` count entries the client asked for — matching ones — never entries it did not ask for), each
shown with its last accepted definition and, for tasks, its executing flag. Consequences a paging client relies on
(proved in Kap/Props/C14.lean): pages with consecutive offsets concatenate to the filtered listing, and an ID appears
in at most one of them.
`known` = the IDs that occur in the history (the catalogue is a function; any list containing every defined ID
gives the same page: `sortIds` orders and de-duplicates it).
Which IDs a pattern denotes (`matchFn`: empty = all, else the `*` / `?` glob) is shared vocabulary with the model.
Core Lean only.
-/
import Kap.Spec.C14
import Kap.Model.C14List
namespace Kap.C14

/-- Sort (and de-duplicate) a list of IDs. -/
def sortIds (l : List String) : List String := l.foldr insId []

/-- filter(pattern) | drop(offset) | take(limit). -/
def pageIds (ids : List String) (m : String → Bool) (offset limit : Nat) : List String :=
  ((ids.filter m).drop offset).take limit

/-- The IDs of the defined tasks, sorted. -/
def Cat.taskIds (c : Cat) (known : List String) : List String :=
  (sortIds known).filter (fun i => (c.tasks i).isSome)

/-- The IDs of the defined templates, sorted. -/
def Cat.tmplIds (c : Cat) (known : List String) : List String :=
  (sortIds known).filter (fun i => (c.tmpls i).isSome)

/-- What GET /tasks?pattern=…&offset=…&limit=… must show: (ID, definition, executing). -/
def Cat.taskPage (c : Cat) (known : List String) (pattern : String) (offset limit : Nat) :
    List (String × Task × Bool) :=
  (pageIds (c.taskIds known) (matchFn pattern) offset limit).filterMap
    fun i => (c.tasks i).map fun t => (i, t, c.executing i)

/-- What GET /templates?pattern=…&offset=…&limit=… must show: (ID, script). -/
def Cat.tmplPage (c : Cat) (known : List String) (pattern : String) (offset limit : Nat) : List (String × String) :=
  (pageIds (c.tmplIds known) (matchFn pattern) offset limit).filterMap
    fun i => (c.tmpls i).map fun s => (i, s)

/-- The same clause judged on an unpaged listing the API showed at the same moment (no request in between): the page
is the slice of THAT listing. Used when the catalogue itself is not known (after a recorded deviation). -/
def sliceOf {α : Type} (rows : List α) (idOf : α → String) (pattern : String) (offset limit : Nat) : List α :=
  ((rows.filter (fun r => matchFn pattern (idOf r))).drop offset).take limit

end Kap.C14
