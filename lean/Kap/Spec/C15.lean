/-
C15 — the property itself, over plain data, independently of how the store lays out keys:

* the store is an abstract map `id ↦ object` (`Abs`, a list with at most one object per id);
* `create` fails with "exists" when the id is stored, `replace` fails with "missing" when it is not; otherwise
  create / put / replace fail with "conflict" when the object would share its value of a UNIQUE index with a stored
  object of another id; `delete` always succeeds; a failed or rejected operation (also: one whose transaction hit
  an I/O fault) leaves the map unchanged; `rebuild` and `reopen` never change it;
* `get id` = the object last stored under `id`;
* every index lists exactly the stored objects, each once, ordered by (index value, id)  (`IsListing`);
* `List(pattern, offset, limit)` = the listing filtered by the pattern (on the id), minus the first `offset`
  matches, cut to `limit` (negative `limit` = no limit); `ReverseList` pages the reversed listing.
Core Lean only.
-/
import Kap.Model.C15
namespace Kap.C15

/-- The abstract store: the stored objects (one per id). -/
abbrev Abs := List Obj

def absGet (m : Abs) (id : Str) : Option Obj := m.find? (fun o => o.id = id)

/-- store `o` under its id (replacing what was there). -/
def absSet (m : Abs) (o : Obj) : Abs := o :: m.filter (fun x => x.id ≠ o.id)
def absDel (m : Abs) (id : Str) : Abs := m.filter (fun x => x.id ≠ id)

/-- Storing `o` would give it a value of a unique index that a stored object of ANOTHER id already has. -/
def absConflict (c : Cfg) (m : Abs) (o : Obj) : Bool :=
  c.indexes.any (fun i => i.unique && m.any (fun x => x.id != o.id && i.sel.get x == i.sel.get o))

/-- Store `o` unless a unique index forbids it. -/
def absStore (c : Cfg) (m : Abs) (o : Obj) : Abs × Option Err :=
  if absConflict c m o then (m, some .conflict) else (absSet m o, none)

/-- What an operation does when no I/O fault strikes: new map and result. -/
def specApply (c : Cfg) (m : Abs) : Op → Abs × Option Err
  | .create o _ => if (absGet m o.id).isSome then (m, some .exists_) else absStore c m o
  | .put o _ => absStore c m o
  | .replace o _ => if (absGet m o.id).isSome then absStore c m o else (m, some .missing)
  | .delete id _ => (absDel m id, none)
  | .rebuild _ => (m, none)
  | .reopen => (m, none)

def Op.fault : Op → Fault
  | .create _ f | .put _ f | .replace _ f | .delete _ f | .rebuild f => f
  | .reopen => .none

/-- Is `res` an admissible result of `op` in state `m`, and which state follows? An operation carrying an
injected fault may fail with `io` (then nothing changes) or go through as if there were no fault (the fault
position was not reached); without a fault `io` is not admissible. -/
def specStep (c : Cfg) (m : Abs) (op : Op) (res : Option Err) : Option Abs :=
  if res = some .io then (if op.fault = .none then none else some m)
  else
    let (m', r) := specApply c m op
    if res = r then (if op.fault = .commit ∧ r = none then none else some m') else none

/-- Order of an index: by index value, ties by id. -/
def keyLt (a b : Str × Str) : Bool := decide (a.1 < b.1) || (a.1 == b.1 && decide (a.2 < b.2))

def idxKey (sel : Sel) (o : Obj) : Str × Str := (sel.get o, o.id)

/-- "`l` lists exactly the objects of `m`, each once, in the order of the index": strictly ascending by
(value, id) and the same members as `m`. -/
def IsListing (sel : Sel) (m : Abs) (l : List Obj) : Prop :=
  l.Pairwise (fun a b => keyLt (idxKey sel a) (idxKey sel b) = true) ∧ ∀ o, o ∈ l ↔ o ∈ m

def insertSorted (sel : Sel) (o : Obj) : List Obj → List Obj
  | [] => [o]
  | x :: r => if keyLt (idxKey sel o) (idxKey sel x) then o :: x :: r else x :: insertSorted sel o r

/-- The listing as a function (insertion sort of the stored objects by (value, id)) — what the driver compares
the implementation's answer with. -/
def specIndex (sel : Sel) (m : Abs) : List Obj := m.foldr (insertSorted sel) []

/-- A page of a listing. -/
def specPage (full : List Obj) (m : Str → Bool) (offset limit : Int) : List Obj :=
  let l := (full.filter (fun o => m o.id)).drop offset.toNat
  if limit < 0 then l else l.take limit.toNat

def specList (sel : Sel) (m : Abs) (pat : Str → Bool) (offset limit : Int) (rev : Bool) : List Obj :=
  let full := specIndex sel m
  specPage (if rev then full.reverse else full) pat offset limit

/-! ### Well-formedness: the domain on which the key layout is faithful -/

/-- A single clean path segment: non-empty, no '/', not "." or "..". -/
def WFseg (s : Str) : Bool := s ≠ [] && !s.contains '/' && s ≠ ['.'] && s ≠ ['.', '.']

/-- No byte below or at '/' (so `value ++ "/" ++ id` orders like the pair (value, id)). -/
def SepSafe (s : Str) : Bool := s.all (fun ch => decide ('/' < ch))

/-- `a` is a proper prefix of `b` and the next character of `b` is '/' or sorts below it: exactly the pairs of
values for which `a ++ "/" ++ id` does NOT order like the pair (value, id). -/
def lowSepPair (a b : Str) : Bool :=
  a.isPrefixOf b && (match b.drop a.length with | ch :: _ => decide (ch < '/') || ch == '/' | [] => false)

/-- Deviation `index-order-separator`: a non-unique index whose stored values contain such a pair. The ORDER
theorems hold exactly outside it. -/
def lowSepDev (i : Index) (m : Abs) : Bool :=
  !i.unique && m.any (fun a => m.any (fun b => lowSepPair (i.sel.get a) (i.sel.get b)))

/-- For the ORDER of a non-unique index, sufficient: the value has no byte ≤ '/'. -/
def Index.wfObj (i : Index) (o : Obj) : Bool := i.unique || SepSafe (i.sel.get o)

/-- A clean relative path: one or more clean segments separated by single slashes ("tasks/cpu" is, "a//b", "a/",
"a/../b", "." and "" are not). -/
def WFpath (s : Str) : Bool := (splitSlash s).all WFseg

/-- The object's id is a clean relative path (one or more clean segments — the load service stores ids like
"tasks/name") and every index value other than the id itself is a single clean path segment. -/
def Cfg.wfObj (c : Cfg) (o : Obj) : Bool :=
  WFpath o.id && c.indexes.all (fun i => i.sel == .id || WFseg (i.sel.get o))

/-- Prefix and index names are clean segments, index names are distinct. -/
def Cfg.wf (c : Cfg) : Bool :=
  WFseg c.pfx && c.indexes.all (fun i => WFseg i.name) && decide ((c.indexes.map (·.name)).Nodup)

/-- Every unique index has distinct values over the stored objects (decidable form of `UniqueOK`). -/
def uniqueOK (c : Cfg) (m : Abs) : Bool :=
  c.indexes.all (fun i => !i.unique ||
    m.all (fun a => m.all (fun b => a.id = b.id || i.sel.get a ≠ i.sel.get b)))

def Op.isRebuild : Op → Bool
  | .rebuild _ => true
  | _ => false

def Op.obj? : Op → Option Obj
  | .create o _ | .put o _ | .replace o _ => some o
  | _ => none

/-- Precondition of a history: every object handed to the store is well-formed for the configuration. -/
def Op.wf (c : Cfg) (op : Op) : Bool :=
  match op with
  | .create o _ | .put o _ | .replace o _ => c.wfObj o
  | .delete id _ => WFseg id
  | _ => true

end Kap.C15
