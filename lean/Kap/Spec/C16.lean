/-
C16 — the property itself, stated over what a batch task ISSUES (condition trees as the database's
parser reads them, group-by literals, source lists) and over plain tick times; nothing here knows how
NewQuery splices, how Clone finds literals or how the ticker computes its next time.

(1) time bound + user condition: a query issued for the range [s, e) is true of a row exactly when the
    user's own WHERE condition is true of it AND s ≤ time < e               (`RangeSpec`, `rangeHolds`);
(2) range of a tick: stop = tick − offset, start = stop − period             (`rangeOfTick`);
(3) ticks: `every(d)` started at s0 ticks at s0 + k·d (k ≥ 1); with `align()` at the multiples of d
    (counted like Go's Truncate, from the year-1 epoch) after s0; `cron` at the schedule's times after s0
                                                                               (`LiveTick`);
(4) history: the queries for a span (start, stop] are those of exactly the live ticks T of a task started
    at `start` with T ≤ stop and T − offset ≤ now, in order, each once      (`HistSpec`, `histHolds`);
    on the observed texts: the historical texts of a span ARE the texts the live ticks of that span issued
                                                                               (`histIsLive`);
(5) alignGroup: the group-by-time buckets are aligned with the start of the range (`gbAligned`);
(5b) fill and tag dimensions are kept (`extraKept`); a result batch is stamped with the window's end (`batchTimeHolds`);
(6) only declared database/retention policies are queried                     (`onlyDeclared`).
Core Lean only.
-/
import Kap.Model.C16
namespace Kap.C16

/-! ### (1) what an issued condition must mean -/

/-- The property for one issued condition, over all rows (`env` = truth of the row's comparisons + its time). -/
def RangeSpec (user : Option Cond) (issued : Cond) (s e : Int) : Prop :=
  ∀ env : Env, issued.eval env =
    ((match user with | some c => c.eval env | none => true) && decide (s ≤ env.time) && decide (env.time < e))

def Cond.opqIds : Cond → List Nat
  | .atom (.opq id) => [id]
  | .atom _ => []
  | .bin _ l r => l.opqIds ++ r.opqIds
  | .paren e => e.opqIds

def Cond.timeLits : Cond → List Int
  | .atom (.time _ lit _) => [lit]
  | .atom _ => []
  | .bin _ l r => l.timeLits ++ r.timeLits
  | .paren e => e.timeLits

/-- All assignments of the listed ids (ids not listed are false). -/
def assignments : List Nat → List (Nat → Bool)
  | [] => [fun _ => false]
  | id :: rest => (assignments rest).flatMap (fun f => [f, fun x => if x = id then true else f x])

/-- Times at which a comparison with one of the literals can change its value. -/
def criticalTimes (lits : List Int) : List Int := lits.flatMap (fun l => [l - 1, l, l + 1])

/-- Executable form of `RangeSpec` for the driver: every assignment of the comparisons that occur, every
time next to a literal that occurs (between two such times no comparison changes). -/
def rangeHolds (user : Option Cond) (issued : Cond) (s e : Int) : Bool :=
  let u := match user with | some c => c | none => .atom (.opq 0)
  let ids := (u.opqIds ++ issued.opqIds).eraseDups
  let ts := criticalTimes (s :: e :: (u.timeLits ++ issued.timeLits))
  (assignments ids).all (fun f => ts.all (fun t =>
    let env : Env := { truth := f, time := t }
    issued.eval env ==
      ((match user with | some c => c.eval env | none => true) && decide (s ≤ t) && decide (t < e))))

/-! ### (2) the range of a tick -/

def rangeOfTick (offset period tick : Int) : Int × Int :=
  let stop := tick - offset
  (stop - period, stop)

/-! ### (3) live ticks -/

inductive Schedule where
  | every (d : Int) (align : Bool)
  /-- the cron schedules `*/k * * * * * *` (k | 60): every K = k s in ns, on the Unix second grid -/
  | cronEvery (K : Int)
  /-- a cron schedule that ends (year field): its firing times, ascending -/
  | cronList (fires : List Int)
  /-- a cron schedule naming times of day (`tod`, ns since midnight) ON THE HOST'S CLOCK, which is `off` ns ahead of
  UTC: it fires at the instants T at which that clock (reading `T + off`) shows a named time of day -/
  | cronZone (tod : List Int) (off : Int)
deriving DecidableEq, Repr, Inhabited

/-- `T` is a time at which a task started at `s0` ticks. -/
def LiveTick (sch : Schedule) (s0 T : Int) : Bool :=
  match sch with
  | .every d false => decide (s0 < T) && decide ((T - s0) % d = 0)
  | .every d true => decide (s0 < T) && decide ((T + zeroOff) % d = 0)
  | .cronEvery K => decide (s0 < T) && decide (T % K = 0)
  | .cronList fires => decide (s0 < T) && fires.contains T
  | .cronZone tod off => decide (s0 < T) && tod.contains ((T + off) % dayNs)

/-- Closed form of "the first live tick after `t`" (for `t ≥ s0`); `Kap.Props.C16.firstLiveAfter_least`
proves it is the least `T > t` with `LiveTick sch s0 T` (`none`: there is none). -/
def firstLiveAfter (sch : Schedule) (s0 t : Int) : Option Int :=
  match sch with
  | .every d false => some (s0 + ((t - s0) / d + 1) * d)
  | .every d true => some (((t + zeroOff) / d + 1) * d - zeroOff)
  | .cronEvery K => some ((t / K + 1) * K)
  | .cronList fires => fires.find? (fun f => decide (t < f))   -- `none`: the schedule has ended
  | .cronZone tod off =>
    -- the first instant after `t` whose clock reading is a named time of day: searched among the named times of the
    -- clock's current and next day (stated as a search, not as cronexpr's field arithmetic)
    let d := (t + off) / dayNs
    ((tod.map (fun x => d * dayNs + x - off)) ++ (tod.map (fun x => (d + 1) * dayNs + x - off))).find? (fun T => decide (t < T))

/-! ### (4) the historical list -/

/-- Tick times of a list of issued ranges. -/
def ticksOf (offset : Int) (ranges : List (Int × Int)) : List Int := ranges.map (fun r => r.2 + offset)

/-- The historical ranges for the span are exactly those of the live ticks in it (`live` = the tick set of a
task started at `start`). -/
def HistSpec (live : Int → Bool) (start stop now offset period : Int) (ranges : List (Int × Int)) : Prop :=
  (ticksOf offset ranges).Pairwise (· < ·) ∧
  (∀ T, T ∈ ticksOf offset ranges ↔ (live T = true ∧ start < T ∧ T ≤ stop ∧ T - offset ≤ now)) ∧
  (∀ r ∈ ranges, r = rangeOfTick offset period (r.2 + offset))

/-- Executable check that `ticks` are exactly the live ticks in (prev, bound], in order: each one is the
first live tick after its predecessor, and the first live tick after the last one is beyond the bound. -/
def ticksExact (sch : Schedule) (s0 bound : Int) : Int → List Int → Bool
  | prev, [] =>
    match firstLiveAfter sch s0 prev with
    | some n => decide (bound < n)
    | none => true
  | prev, T :: rest => (firstLiveAfter sch s0 prev == some T) && decide (T ≤ bound) && ticksExact sch s0 bound T rest

/-- Executable form of `HistSpec`. -/
def histHolds (sch : Schedule) (start stop now offset period : Int) (ranges : List (Int × Int)) : Bool :=
  ticksExact sch start (min stop (now + offset)) start (ticksOf offset ranges) &&
  ranges.all (fun r => r == rangeOfTick offset period (r.2 + offset))

/-- Observed form of (4): the texts `BatchQueries` lists for a span are exactly the texts the task's live ticks issued
in that span, in order (texts compared whole). -/
def histIsLive (hist live : List String) : Bool := hist == live

/-- Observed form of (3) for a task watched from `t0` to `t1`: the ticks behind its queries are the scheduled times
in (t0, t1] — none missing, none besides (`due` = the schedule's times, ascending). -/
def liveFollows (due : List Int) (t0 t1 : Int) (ticks : List Int) : Bool :=
  ticks == due.filter (fun T => decide (t0 < T) && decide (T ≤ t1))

/-! ### (5) alignGroup -/

/-- Buckets of `GROUP BY time(len, off)` start at `off + k·len`: aligned with `s` when `s` is such a point. -/
def gbAligned (s : Int) (gb : Int × Int) : Bool := decide ((s - gb.2) % gb.1 = 0)

/-! ### (5b) what else the user wrote stays; the batch carries the window's end -/

/-- Fill option and tag / `*` dimensions of an issued text are the configured ones. -/
def extraKept (configured issued : String) : Bool := configured == issued

/-- The time on a result batch: the query's stop (the window's end) — unless the query is grouped by time, then
the latest point time of the result (`ptMax`; without points again the stop). -/
def batchTimeHolds (groupedByTime : Bool) (ptMax : Option Int) (stop bt : Int) : Bool :=
  if groupedByTime then bt == ptMax.getD stop else bt == stop

/-! ### (6) declared sources -/

def onlyDeclared (declared : List DBRP) (queried : List DBRP) : Bool := queried.all (fun d => declared.contains d)

end Kap.C16
