/-
C17 — the property itself, as a monitor over the history an outside observer sees (the `Ev` list, oldest first):
Schedule / Release calls, clock movements, executor entries and exits, checkpoints. Nothing here knows about the
queue, the uniqueness index, the timer or the main loop.

Statement (properties.jsonl): for every scheduled task the executor is invoked for consecutive occurrences of its
schedule after its last-scheduled time, each occurrence exactly once, in increasing order, never before
occurrence+offset on the scheduler's clock, never concurrently for the same task, and not at all for occurrences
after the task was released; […] the last-scheduled checkpoint only moves forward.

Per task id the monitor keeps what the STATEMENT talks about:
  * whether the task is scheduled, with which schedule and offset (`epoch`), and which occurrence is the next one
    that may run (`expect` = Next(lastScheduled) after Schedule, Next(previous) after each run; `none` when the
    schedule has no further occurrence),
  * the run in progress, if any (`run`),
  * the last checkpoint of the current scheduling (`ck`).
Every executor entry is judged by five clauses (below); a violation is reported with the clause's name.
-/
import Kap.Model.C17
namespace Kap.C17

structure Run where
  occ : Int                 -- the occurrence being executed
  finished : Bool := false  -- Execute returned; its checkpoint is still to come
  floor : Option Int        -- the last checkpoint of its scheduling when it started
  cur : Bool := true        -- it belongs to the current scheduling (no Schedule/Release since it started)
deriving Repr, DecidableEq

structure View where
  epoch : Option (Nat × Int) := none     -- (schedule, offset in ms) while scheduled
  expect : Option Int := none
  run : Option Run := none
  ck : Option Int := none
deriving Repr, DecidableEq

structure Mon where
  now : Int := 0
  views : List (Nat × View) := []
deriving Repr

def Mon.view (m : Mon) (id : Nat) : View := (aget m.views id).getD {}
def Mon.set (m : Mon) (id : Nat) (v : View) : Mon := { m with views := aset m.views id v }

/-- `t` does not lie above the floor (the previous checkpoint of the same scheduling). -/
def notAbove (floor : Option Int) (t : Int) : Bool :=
  match floor with
  | some c => decide (t ≤ c)
  | none => false

/-- One observed event. `Except.error clause` = the property is violated, by that clause. -/
def monStep (nx : Nat → Int → Option Int) (m : Mon) : Ev → Except String Mon
  | .sched id sc off last =>
    let v := m.view id
    -- a (re-)Schedule starts a new scheduling: consecutive occurrences after `last`
    .ok (m.set id { epoch := some (sc, off), expect := nx sc last, ck := none,
                    run := v.run.map (fun r => { r with cur := false }) })
  | .schedErr _ => .ok m
  | .rel id =>
    let v := m.view id
    .ok (m.set id { epoch := none, expect := none, ck := none,
                    run := v.run.map (fun r => { r with cur := false }) })
  | .clock t => if t < m.now then .error "clock-moves-forward" else .ok { m with now := t }
  | .start id occ runAt =>
    let v := m.view id
    match v.epoch with
    | none => .error "released-is-silent"                       -- not scheduled: no run at all
    | some (sc, off) =>
      if v.run.isSome then .error "no-overlap"                  -- never concurrently for the same task
      else if v.expect ≠ some occ then .error "consecutive-in-order-once"  -- exactly the next occurrence
      else if occ * 1000 + off > m.now * 1000 then .error "never-early"   -- not before occurrence+offset (EXACT, ms)
      else if runAt ≠ occ + off.tdiv 1000 then .error "run-at-is-occurrence-plus-offset"   -- its whole seconds
      else .ok (m.set id { v with expect := nx sc occ, run := some { occ := occ, floor := v.ck } })
  | .finish id occ =>
    let v := m.view id
    match v.run with
    | some r => if r.occ = occ ∧ r.finished = false then .ok (m.set id { v with run := some { r with finished := true } })
                else .error "finish-matches-run"
    | none => .error "finish-matches-run"
  | .ckpt id t =>
    let v := m.view id
    match v.run with
    | some r =>
      if r.occ ≠ t ∨ r.finished = false then .error "checkpoint-is-the-finished-run"
      else if notAbove r.floor t then .error "checkpoint-moves-forward"
      else .ok (m.set id { v with run := none, ck := if r.cur then some t else v.ck })
    | none => .error "checkpoint-is-the-finished-run"
  | .onErr _ => .ok m

def monRun (nx : Nat → Int → Option Int) : Mon → List Ev → Except String Mon
  | m, [] => .ok m
  | m, e :: es => match monStep nx m e with
    | .ok m' => monRun nx m' es
    | .error c => .error c

/-- The safety part of the property holds of a history (oldest event first). -/
def Accepts (nx : Nat → Int → Option Int) (h : List Ev) : Prop := ∃ m, monRun nx {} h = .ok m

instance (nx : Nat → Int → Option Int) (h : List Ev) : Decidable (Accepts nx h) :=
  match hm : monRun nx {} h with
  | .ok m => isTrue ⟨m, hm⟩
  | .error c => isFalse (by intro ⟨m, h'⟩; rw [hm] at h'; cases h')

/-- The "exactly once" half that safety cannot give (no occurrence is skipped or forgotten), in the form that can
be judged at a quiescent moment: a scheduled task whose next occurrence is due (occurrence+offset ≤ now, with the
EXACT offset in ms) is only waiting because a task on the same worker (`wk`), possibly itself, is running. Returns
the ids that violate it. -/
def dueIdle (wk : Nat → Nat) (m : Mon) : List Nat :=
  (m.views.filter (fun p =>
    match p.2.epoch, p.2.expect with
    | some (_, off), some occ =>
      decide (occ * 1000 + off ≤ m.now * 1000) &&
        !(m.views.any (fun q => decide (wk q.1 = wk p.1) && q.2.run.isSome))
    | _, _ => false)).map (·.1)

end Kap.C17
