/-
C18 — the property itself: "a recording, when replayed, delivers the same sequence of points/batches that was
recorded: same database, retention policy, measurement, tags, field names, field values and field types, group and
order, with timestamps either identical (recorded-time replay) or all shifted by one constant offset, and the replay
ends after the last recorded item."

Stated over the plain list of recorded items and what the collector received; nothing here knows about line
protocol, JSON, framing or how the replay computes its offset. (`Model.C18` is imported for the data types only.)

The recorded DEVIATIONS of the unchanged code (findings/C18.txt) are stated next to it as explicit decidable clauses:
each says for which inputs it applies and what is delivered instead, so that any OTHER difference is still a failure.
Core Lean only.
-/
import Kap.Model.C18
namespace Kap.C18

/-- "identical, or all shifted by one constant offset" over the list of ALL timestamps, in order. -/
def timesOK (recTime : Bool) (ins outs : List Int) : Bool :=
  if recTime then ins == outs
  else match ins, outs with
    | i0 :: _, o0 :: _ => outs == ins.map (· + (o0 - i0))
    | [], [] => true
    | _, _ => false

/-- What the collector saw, for streams. -/
structure SObs where
  status : Status
  closes : Nat
  closedAt : Nat
  items : List SPoint
  /-- `(group id, byName, dimension tag names)` of every delivered point -/
  groups : List (Bytes × Bool × List Bytes)
deriving Repr

/-- Everything of a point except its time. -/
def SPoint.sameData (p q : SPoint) : Bool :=
  p.db == q.db && p.rp == q.rp && p.name == q.name && p.tags == q.tags && p.fields == q.fields

/-- First failing clause of the stream property, `none` = the property holds of this run.
`recGroups` = the group of every recorded point as the recorded message itself reports it. -/
def specStream (recTime : Bool) (recorded : List SPoint) (recGroups : List (Bytes × Bool × List Bytes)) (o : SObs) : Option String :=
  if o.status != .ok then some "replay-succeeds"
  else if o.items.length != recorded.length then some "same-number-of-points"
  else if !(o.closes == 1 && o.closedAt == recorded.length) then some "ends-after-last"
  else if !((recorded.zip o.items).all (fun pq => pq.1.db == pq.2.db && pq.1.rp == pq.2.rp)) then some "same-db-rp"
  else if !((recorded.zip o.items).all (fun pq => pq.1.name == pq.2.name && pq.1.tags == pq.2.tags)) then some "same-measurement-tags"
  else if !((recorded.zip o.items).all (fun pq => pq.1.fields.map (·.1) == pq.2.fields.map (·.1))) then some "same-field-names"
  else if !((recorded.zip o.items).all (fun pq => pq.1.fields.map (·.2.kind) == pq.2.fields.map (·.2.kind))) then some "same-field-types"
  else if !((recorded.zip o.items).all (fun pq => pq.1.fields == pq.2.fields)) then some "same-field-values"
  else if recGroups != o.groups then some "same-group"
  else if !timesOK recTime (recorded.map (·.time)) (o.items.map (·.time)) then some "times-identical-or-one-offset"
  else none

/-! #### Stream deviations -/

/-- Clause of finding `stream-newline-framing`: a NAME that the recording writes unquoted — database, retention
policy, measurement, a tag key or value, a field key — contains a line feed, or the database / retention policy ends
in a carriage return. (A line feed inside a string field VALUE is fine since the `fix:` commit c988361.) -/
def hasNL (s : Bytes) : Bool := s.contains NL
def endsCR (s : Bytes) : Bool := s.getLast? == some CR

def FV.hasNL : FV → Bool
  | .str s => Kap.C18.hasNL s
  | _ => false

def SPoint.dirty (p : SPoint) : Bool :=
  hasNL p.db || hasNL p.rp || endsCR p.db || endsCR p.rp || hasNL p.name ||
  p.tags.any (fun kv => hasNL kv.1 || hasNL kv.2) || p.fields.any (fun kv => hasNL kv.1)

/-- Clause of finding `stream-hash-measurement`: the measurement starts with `#`, so the recorded line is a
line-protocol comment. -/
def SPoint.hashName (p : SPoint) : Bool := p.name.head? == some HASH

/-- Clause of finding `stream-backslash-name`: the measurement, a tag key or value, or a field key contains a
backslash (the line protocol has no escape for it in names; string field VALUES are not concerned). -/
def SPoint.backslashName (p : SPoint) : Bool :=
  p.name.contains BS || p.tags.any (fun kv => kv.1.contains BS || kv.2.contains BS) || p.fields.any (fun kv => kv.1.contains BS)

/-- Clause of finding `stream-whitespace-fieldkey`: the first (smallest) field key starts with TAB or NUL — the
field section of the recorded line then begins with whitespace that the line protocol parser skips. -/
def SPoint.wsFieldKey (p : SPoint) : Bool :=
  match p.fields.head? with
  | some kv => kv.1.head? == some TAB || kv.1.head? == some 0
  | none => false

/-- Key of the deviation that applies to a recorded point, if any. -/
def SPoint.devKey (p : SPoint) : Option String :=
  if p.dirty then some "stream-newline-framing" else if p.hashName then some "stream-hash-measurement"
  else if p.backslashName then some "stream-backslash-name"
  else if p.wsFieldKey then some "stream-whitespace-fieldkey" else none

/-- Index and key of the first recorded point to which a deviation clause applies. -/
def firstDev : List SPoint → Nat → Option (Nat × String)
  | [], _ => none
  | p :: rest, i => match p.devKey with | some k => some (i, k) | none => firstDev rest (i + 1)

/-- What the deviations promise instead: every point BEFORE the first affected one is delivered faithfully
(same data, same group, one offset), the collector is closed exactly once after whatever was delivered; for a
`#` measurement additionally: nothing after the prefix is delivered and the replay reports an error. -/
def specStreamDev (recTime : Bool) (recorded : List SPoint) (recGroups : List (Bytes × Bool × List Bytes)) (o : SObs)
    (k : Nat) (key : String) : Option String :=
  let pre := recorded.take k
  let got := o.items.take k
  if o.items.length < k then some "dev-prefix-delivered"
  else if !(o.closes == 1 && o.closedAt == o.items.length) then some "dev-ends-after-last"
  else if !((pre.zip got).all (fun pq => pq.1.sameData pq.2)) then some "dev-prefix-same-data"
  else if recGroups.take k != o.groups.take k then some "dev-prefix-same-group"
  else if !timesOK recTime (pre.map (·.time)) (got.map (·.time)) then some "dev-prefix-times"
  else if key == "stream-hash-measurement" && !(o.status == .err && o.items.length == k) then some "dev-hash-stops-with-error"
  else none

/-! ### Batches -/

structure BObs where
  status : Status
  closes : Nat
  closedAt : Nat
  items : List Batch
  /-- `(group id, dimension tag names)` of every delivered batch -/
  groups : List (Bytes × List Bytes)
deriving Repr

/-- All timestamps of a batch sequence in order: for each batch its points' times, then its tmax — but the tmax
only for batches whose recorded tmax is not before their last point (`wf`), the meaning of "tmax". -/
def Batch.wfTmax (b : Batch) : Bool := b.points.all (fun p => p.time ≤ b.tmax)

def allTimes (recorded outs : List Batch) : List Int × List Int :=
  let pairs := recorded.zip outs
  (pairs.flatMap (fun io => io.1.points.map (·.time) ++ (if io.1.wfTmax then [io.1.tmax] else [])),
   pairs.flatMap (fun io => io.2.points.map (·.time) ++ (if io.1.wfTmax then [io.2.tmax] else [])))

def specBatch (recTime : Bool) (recorded : List Batch) (recGroups : List (Bytes × List Bytes)) (o : BObs) : Option String :=
  if o.status != .ok then some "replay-succeeds"
  else if o.items.length != recorded.length then some "same-number-of-batches"
  else if !(o.closes == 1 && o.closedAt == recorded.length) then some "ends-after-last"
  else if !((recorded.zip o.items).all (fun pq => pq.1.name == pq.2.name && pq.1.byName == pq.2.byName && pq.1.tags == pq.2.tags)) then some "same-name-tags"
  else if recGroups != o.groups then some "same-group"
  else if !((recorded.zip o.items).all (fun pq => pq.1.points.length == pq.2.points.length)) then some "same-number-of-points"
  else if !((recorded.zip o.items).all (fun pq => pq.1.points.map (·.tags) == pq.2.points.map (·.tags))) then some "same-point-tags"
  else if !((recorded.zip o.items).all (fun pq =>
      pq.1.points.map (fun p => p.fields.map (·.1)) == pq.2.points.map (fun p => p.fields.map (·.1)))) then some "same-field-names"
  else if !((recorded.zip o.items).all (fun pq =>
      pq.1.points.map (fun p => p.fields.map (·.2.kind)) == pq.2.points.map (fun p => p.fields.map (·.2.kind)))) then some "same-field-types"
  else if !((recorded.zip o.items).all (fun pq => pq.1.points.map (·.fields) == pq.2.points.map (·.fields))) then some "same-field-values"
  else
    let (ti, to) := allTimes recorded o.items
    if !timesOK recTime ti to then some "times-identical-or-one-offset" else none

/-! #### Batch deviations (each: clause on the input + what is delivered instead, as a rewrite of the input) -/

/-- `batch-int-as-float`: an int64 field is delivered as the float64 nearest to it. -/
def devIntClause (bs : List Batch) : Bool :=
  bs.any (fun b => b.points.any (fun p => p.fields.any (fun kv => kv.2.kind == 1)))
def devIntApply (bs : List Batch) : List Batch :=
  bs.map (fun b => { b with points := b.points.map (fun p => { p with fields := p.fields.map (fun kv =>
    (kv.1, match kv.2 with | .int v => .float (f64OfInt v) | x => x)) }) })

/-- `batch-empty-skipped`: a batch without points is not delivered. -/
def devEmptyClause (bs : List Batch) : Bool := bs.any (fun b => b.points.isEmpty)
def devEmptyApply (bs : List Batch) : List Batch := bs.filter (fun b => !b.points.isEmpty)

/-- `batch-tagless-point-inherits`: a point without tags in a batch with tags is delivered with the batch's tags. -/
def devTaglessClause (bs : List Batch) : Bool := bs.any (fun b => !b.tags.isEmpty && b.points.any (fun p => p.tags.isEmpty))
def devTaglessApply (bs : List Batch) : List Batch :=
  bs.map (fun b => { b with points := b.points.map (fun p => if p.tags.isEmpty then { p with tags := b.tags } else p) })

/-- The deviations whose clause holds of this input, in a fixed order, and the input rewritten by them (each rewrite
is the identity on inputs to which its clause does not apply). -/
def batchDevs (bs : List Batch) : List String × List Batch :=
  ((if devIntClause bs then ["batch-int-as-float"] else []) ++
   (if devTaglessClause bs then ["batch-tagless-point-inherits"] else []) ++
   (if devEmptyClause bs then ["batch-empty-skipped"] else []),
   devEmptyApply (devTaglessApply (devIntApply bs)))

/-- Keep the group observations of the batches that survive `devEmptyApply`. -/
def devGroups (bs : List Batch) (gs : List (Bytes × List Bytes)) : List (Bytes × List Bytes) :=
  ((bs.zip gs).filter (fun bg => !bg.1.points.isEmpty)).map (·.2)

/-! ### Live replays (`ReplayStreamFromChan` / `ReplayBatchFromChan` fed from a channel)

The same statement; nothing is recorded in between, so there is no representation to excuse anything: every point
and EVERY batch — also one without points, which carries a group and a batch time — must be delivered, with all
timestamps identical or shifted by one offset. Streams use `specStream` as it is. -/

structure LObs where
  status : Status
  closes : Nat
  closedAt : Nat
  /-- delivered batch, and whether its batch time is a non-zero time -/
  items : List (Batch × Bool)
  groups : List (Bytes × List Bytes)
deriving Repr

/-- The timestamps of a batch on a channel: its points' times, then its batch time when it has one (a zero
`time.Time` is "no batch time": the replay fills one in) that is not before its points. -/
def LBatch.times (lb : LBatch) : List Int := lb.b.points.map (·.time) ++ (if lb.hasT && lb.b.wfTmax then [lb.b.tmax] else [])

/-- The delivered timestamps at the same positions. -/
def liveOutTimes (lb : LBatch) (o : Batch) : List Int := o.points.map (·.time) ++ (if lb.hasT && lb.b.wfTmax then [o.tmax] else [])

def specBatchLive (recTime : Bool) (recorded : List LBatch) (recGroups : List (Bytes × List Bytes)) (o : LObs) : Option String :=
  let outs := o.items.map (·.1)
  let ins := recorded.map (·.b)
  if o.status != .ok then some "replay-succeeds"
  else if o.items.length != recorded.length then some "same-number-of-batches"
  else if !(o.closes == 1 && o.closedAt == recorded.length) then some "ends-after-last"
  else if !((ins.zip outs).all (fun pq => pq.1.name == pq.2.name && pq.1.byName == pq.2.byName && pq.1.tags == pq.2.tags)) then some "same-name-tags"
  else if recGroups != o.groups then some "same-group"
  else if !((ins.zip outs).all (fun pq => pq.1.points.length == pq.2.points.length)) then some "same-number-of-points"
  else if !((ins.zip outs).all (fun pq => pq.1.points.map (·.tags) == pq.2.points.map (·.tags))) then some "same-point-tags"
  else if !((ins.zip outs).all (fun pq => pq.1.points.map (·.fields) == pq.2.points.map (·.fields))) then some "same-field-values"
  else if !((recorded.zip o.items).all (fun pq => !pq.1.hasT || pq.2.2)) then some "batch-time-kept"
  else if !timesOK recTime (recorded.flatMap LBatch.times) ((recorded.zip outs).flatMap (fun pq => liveOutTimes pq.1 pq.2))
    then some "times-identical-or-one-offset"
  else none

end Kap.C18
