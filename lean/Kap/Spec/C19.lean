/-
C19 — the property itself, stated over what goes in and what comes out, independently of varints, typed maps,
request/response messages or the assembly automaton:

* ECHO IDENTITY. The data messages that come back from an echoing UDF are the data messages that were sent: as
  many, in the same order, and pairwise the same — a point in name, database, retention policy, group,
  dimensions (names and by-name flag), tags, fields (names, values AND types; floats by bit pattern) and time; a
  batch in name, group, dimensions, tags, tmax and, point by point in order, fields, tags and time (so batch
  boundaries are kept; a batch sent as begin/points/end and the same batch sent buffered are the same batch).
  Tag and field sets are Go maps: they are compared as sets of entries.
* FRAMING. The messages read from a byte stream are exactly the messages that were written to it, whatever the
  fragmentation of the stream into reads; of a stream that ends early exactly the whole frames are read, and the
  early end is reported as an error unless it falls on a frame boundary (no phantom, no silent loss).
* SNAPSHOT. The bytes a snapshot request returns are the bytes the UDF supplied; the bytes the UDF is asked to
  restore are the bytes that were passed in.
Core Lean only. The data structures `Point`, `Begin`, `BP` are shared with the model; the property clauses use none
of its functions. The two RECORDED DEVIATIONS at the end (findings/C19.txt) are stated with `utf8.Valid`,
`models.SortedKeys` and `models.ToGroupID` as the model transcribes them.
-/
import Kap.Model.C19
namespace Kap.C19

/-- Two Go maps (association lists with distinct keys) hold the same entries. -/
def sameMap {α : Type} [DecidableEq α] (a b : GoMap α) : Bool :=
  a.length == b.length && a.all (fun e => b.contains e) && b.all (fun e => a.contains e)

def samePoint (a b : Point) : Bool :=
  a.name == b.name && a.db == b.db && a.rp == b.rp && a.group == b.group && a.dims == b.dims &&
  a.byName == b.byName && sameMap a.tags b.tags && sameMap a.fields b.fields && a.time == b.time

def sameBP (a b : BP) : Bool :=
  sameMap a.fields b.fields && sameMap a.tags b.tags && a.time == b.time

/-- A data message as the property sees it: a point, or a whole batch. -/
inductive Data where
  | point (p : Point)
  | batch (b : Begin) (pts : List BP)
deriving Repr, Inhabited

def sameBatch (a : Begin) (as : List BP) (b : Begin) (bs : List BP) : Bool :=
  a.name == b.name && a.group == b.group && a.dims == b.dims && a.byName == b.byName && sameMap a.tags b.tags &&
  a.tmax == b.tmax && as.length == bs.length && (as.zip bs).all (fun p => sameBP p.1 p.2)

def sameData : Data → Data → Bool
  | .point a, .point b => samePoint a b
  | .batch a as, .batch b bs => sameBatch a as b bs
  | _, _ => false

/-- ECHO IDENTITY. -/
def echoIdentity (sent received : List Data) : Bool :=
  sent.length == received.length && (sent.zip received).all (fun p => sameData p.1 p.2)

/-- Index of the first position where the two sequences differ (for the report). -/
def firstDiff (sent received : List Data) : Nat :=
  ((sent.zip received).takeWhile (fun p => sameData p.1 p.2)).length

/-- FRAMING, complete stream: what is read is what was written, and the stream ends cleanly. -/
def framingIdentity {μ : Type} [DecidableEq μ] (written read : List μ) (cleanEnd : Bool) : Bool :=
  decide (written = read) && cleanEnd

/-- FRAMING, stream cut after `cut` bytes; `lens` are the frame lengths. Exactly the whole frames are read; the
end is clean iff the cut is on a frame boundary. -/
def wholeFrames (lens : List Nat) (cut : Nat) : Nat × Bool :=
  let rec go : List Nat → Nat → Nat → Nat × Bool
    | [], _, k => (k, true)
    | l :: ls, left, k => if left = 0 then (k, true) else if l ≤ left then go ls (left - l) (k + 1) else (k, false)
  go lens cut 0

def framingTruncated {μ : Type} [DecidableEq μ] (written read : List μ) (lens : List Nat) (cut : Nat) (cleanEnd : Bool) : Bool :=
  let (k, onBoundary) := wholeFrames lens cut
  decide (read = written.take k) && (cleanEnd == onBoundary)

/-- SNAPSHOT. -/
def snapshotIdentity (supplied returned : List Nat) : Bool := decide (supplied = returned)

/-! ### Recorded deviations (known findings): precise clauses on the INPUT and the deviated output -/

def fieldStrings (f : Fields) : List Str :=
  f.flatMap (fun e => match e.2 with | .str s => [e.1, s] | _ => [e.1])
def tagStrings (t : Tags) : List Str := t.flatMap (fun e => [e.1, e.2])

/-- Every Go string a data message carries. -/
def Data.strings : Data → List Str
  | .point p => [p.name, p.db, p.rp, p.group] ++ p.dims ++ tagStrings p.tags ++ fieldStrings p.fields
  | .batch b pts => [b.name, b.group] ++ tagStrings b.tags ++ pts.flatMap (fun bp => tagStrings bp.tags ++ fieldStrings bp.fields)

/-- `Dev invalid-utf8`: the message carries a string that is not valid UTF-8. Deviated output: the server aborts;
what came back is the echo of a prefix of the messages sent before it. -/
def devUtf8 (d : Data) : Bool := d.strings.any (fun s => !validUTF8 s)

/-- A batch whose dimension list is not the sorted list of its tag keys — outside what the edge constructors and the
nodes build (`GroupByNode` built such a header with `SetTagsAndDimensions` when a dimension was named twice in
`groupBy`, until `fix:` 6ba92e9: former finding batch-dims-rederived; today only a hand-made header is like this).
Deviated output: the same batch with the dimensions re-derived from the tags and the group ID of those. -/
def devDims : Data → Bool
  | .batch b _ => decide (b.dims ≠ sortedKeys b.tags)
  | _ => false

def devDimsOut : Data → Data
  | .batch b pts => .batch { b with dims := sortedKeys b.tags, group := toGroupID b.name b.tags b.byName (sortedKeys b.tags) } pts
  | d => d

/-- ECHO IDENTITY up to re-derived batch dimensions (the former deviation `batch-dims-rederived`; equal to `echoIdentity` when no sent batch
satisfies `devDims`). -/
def echoIdentityUpToDims (sent received : List Data) : Bool := echoIdentity (sent.map devDimsOut) received

end Kap.C19
