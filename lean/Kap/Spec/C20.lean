/-
C20 — the property itself, written without reference to how the code decides (no stack machine, no loop,
no bit masks, no `path.Dir`):

  With authentication enabled, a request is served only with valid credentials, and a non-admin user may
  perform it only if the privilege required by the HTTP method is granted on the closest ancestor-or-self of
  the normalised resource path that carries a grant; path tricks ('..', duplicate or trailing slashes) never
  widen access, writes are additionally checked against the target database, and distinct database names
  never map to the same resource.

* A rooted path DENOTES a node of the resource tree (`nodeOf`): read from the right, "" and "." stand still,
  ".." cancels the next real name to its left, what is left is the list of names from the root. Two paths are
  the same resource iff they denote the same node; a path trick is another spelling of the same node.
  A path that is not rooted denotes nothing.
* The grant table attaches privilege lists to nodes (`grantAt`); the grant that counts for a node is the one
  on its nearest ancestor-or-self that has one (`nearestGrant`), and ONLY that one.
* `mayAllow` is the reference decision: allowed iff the wanted privilege, or `all`, is listed there. The
  decision is a FUNCTION of the table: the same table always gives the same answer (clause
  `decision-deterministic` of the driver; entries that spell the same node are one grant, their lists united).
* HTTP: the privilege a method needs (`requiredFor`), whose credentials are valid (`validAccounts`), and what a
  served / written request implies (`servedOK`, `wroteOK`).
* `DbInjective`: distinct database names, distinct resources; `Dev_db_collision` is the recorded deviation.

Only the string glue (`split`, `isAbs`) and the plain data types are shared with the model. Core Lean only.
-/
import Kap.Model.C20
namespace Kap.C20.Spec
open Kap.C20

/-! ### Privileges (the statement's own table; `Kap.Props.C20.gen_matches_statement` ties it to the source) -/

def pNone : Nat := 1
def pRead : Nat := 2
def pWrite : Nat := 4
def pDelete : Nat := 8
def pAll : Nat := 16

def validPriv (p : Nat) : Bool := p == pNone || p == pRead || p == pWrite || p == pDelete || p == pAll

/-! ### Resources -/

abbrev Node := List Seg

/-- Read the elements from the right: `skip` = number of ".." seen that still have to cancel a name. -/
def resolveRev : Nat → List Seg → List Seg
  | _, [] => []
  | skip, s :: rest =>
    if s = [] ∨ s = ['.'] then resolveRev skip rest
    else if s = ['.', '.'] then resolveRev (skip + 1) rest
    else match skip with
      | 0 => s :: resolveRev 0 rest
      | k + 1 => resolveRev k rest

/-- The node a path denotes (names from the root); only rooted paths denote one. -/
def nodeOf (p : Path) : Option Node :=
  if isAbs p then some (resolveRev 0 (split p).reverse).reverse else none

/-- The privileges the table grants ON node `n`: everything listed by the entries whose resource denotes `n`
(several spellings of one node are one resource); `none` when no entry denotes it. -/
def grantAt (grants : List (Path × List Nat)) (n : Node) : Option (List Nat) :=
  let hits := grants.filter (fun g => nodeOf g.1 = some n)
  if hits.isEmpty then none else some (hits.flatMap (fun g => g.2))

/-- Ancestors-or-self of a node, nearest first: the node itself, its parent, …, the root. -/
def ancestors (n : Node) : List Node := (List.range (n.length + 1)).reverse.map (fun k => n.take k)

/-- The grant that counts: the one on the nearest ancestor-or-self carrying any. -/
def nearestGrant (grants : List (Path × List Nat)) (n : Node) : Option (Node × List Nat) :=
  (ancestors n).findSome? (fun a => match grantAt grants a with | some ps => some (a, ps) | none => none)

/-- A privilege list grants `want` when it lists `want` or lists `all`. -/
def listed (ps : List Nat) (want : Nat) : Bool := ps.contains want || ps.contains pAll

/-- **The reference decision**: nothing is needed for `none`, an admin may do everything, anybody else exactly
what the nearest granted ancestor-or-self of the denoted node lists. -/
def mayAllow (a : Account) (resource : Path) (want : Nat) : Bool :=
  want == pNone || a.admin ||
  match nodeOf resource with
  | none => false
  | some n =>
    match nearestGrant a.grants n with
    | some (_, ps) => listed ps want
    | none => false

/-- Tables the statement quantifies over: privileges are the five declared ones. -/
def wfGrants (grants : List (Path × List Nat)) : Bool :=
  grants.all (fun g => g.2.all validPriv)

/-- The decision observed for one (account, resource, privilege) satisfies the property. `observedAllow` is
what the implementation answered. Returns the violated clause. -/
def judgeDecision (a : Account) (resource : Path) (want : Nat) (observedAllow : Bool) : Option String :=
  if observedAllow && !mayAllow a resource want then some "only-nearest-grant"
  else if !observedAllow && mayAllow a resource want then some "granted-but-refused"
  else none

/-! ### HTTP -/

def upper (m : List Char) : List Char := m.map Char.toUpper

/-- The privilege an HTTP method requires (none = the method is not served at all). -/
def requiredFor (method : List Char) : Option Nat :=
  let m := upper method
  if m = "HEAD".toList ∨ m = "OPTIONS".toList then some pNone
  else if m = "GET".toList then some pRead
  else if m = "POST".toList ∨ m = "PATCH".toList ∨ m = "PUT".toList then some pWrite
  else if m = "DELETE".toList then some pDelete
  else none

def subscriber : List Char := "~subscriber".toList

/-- All accounts for which the request presents valid credentials, in any of the accepted forms. -/
def validAccounts (svc : AuthSvc) (a : ReqAuth) : List Account :=
  let byPassword (n p : List Char) : List Account :=
    if n = [] then [] else (svc.users.filter (fun e => e.1 = n ∧ e.2.1 = p)).map (·.2.2)
  let hdr : List Account :=
    match a.header with
    | .basic n p => if n = subscriber then (svc.subs.filter (fun e => e.1 = p)).map (·.2) else byPassword n p
    | .bearer t =>
      if t.sigOK && (match t.exp with | some e => decide (e > 0) | none => false) then
        match t.username with
        | some n => if n = [] then [] else (svc.users.filter (fun e => e.1 = n)).map (·.2.2)
        | none => []
      else []
    | _ => []
  hdr ++ byPassword a.qu a.qp

/-- The API resource a URL path stands for: "/api" + the path below "/kapacitor/v1". -/
def apiNodeOf (urlPath : Path) : Path :=
  "/api/".toList ++ (if "/kapacitor/v1".toList.isPrefixOf urlPath then urlPath.drop 13 else urlPath)

/-- The only requests exempt from authentication: the profiling / expvar pages below
"/kapacitor/v1/debug/", read with GET, and only when the operator switched `pprof-enabled` on. -/
def exempt (exposePprof : Bool) (req : Req) : Bool :=
  exposePprof && req.method == "GET".toList && "/kapacitor/v1/debug/".toList.isPrefixOf req.path

/-- A request that was SERVED (a route handler ran) satisfies the property. -/
def servedOK (requireAuth exposePprof : Bool) (svc : AuthSvc) (req : Req) : Bool :=
  !requireAuth || exempt exposePprof req ||
  match requiredFor req.method with
  | none => false
  | some want => (validAccounts svc req.auth).any (fun acc => mayAllow acc (apiNodeOf req.path) want)

/-- A route pattern covers a URL path (a pattern ending in '/' covers everything below it). -/
def patternCovers (pat p : Path) : Bool :=
  if pat.getLast? = some '/' then pat.isPrefixOf p else pat == p

/-- The handler registered for method `hm` and pattern `hp` RAN for the request: the property must hold of THAT
handler — valid credentials of an account holding the privilege `hm` (not whatever else the request names as its
method) requires on the resource of the request, and `hp` is a route of that resource (of the URL path, or of the
path a `/kapacitor/v1preview` URL stands for). Nothing of the request but its credentials, its path and the handler
that ran enters: no header can make it true. -/
def ranOK (requireAuth exposePprof : Bool) (svc : AuthSvc) (req : Req) (hm : List Char) (hp : Path) : Bool :=
  !requireAuth ||
  (servedOK requireAuth exposePprof svc { req with method := hm } &&
   (patternCovers hp req.path ||
    ("/kapacitor/v1preview".toList.isPrefixOf req.path &&
     patternCovers hp ("/kapacitor/v1".toList ++ req.path.drop 20))))

/-- The database resource of a database name: one element below "/database"; the statement only needs that
different names give different resources, so the spec takes the mapping as a parameter.
`req.db` is the TARGET database — the one the points go to. Nothing else of the query enters: not `rp`, not
`precision`, not `consistency`; a write is fine only if the account may write to the endpoint AND to that database. -/
def wroteOK (dbRes : List Char → Path) (requireAuth : Bool) (svc : AuthSvc) (req : Req) : Bool :=
  !requireAuth ||
  (validAccounts svc req.auth).any (fun acc =>
    mayAllow acc (apiNodeOf req.path) pWrite && mayAllow acc (dbRes req.db) pWrite)

/-- … judged on the database the points were OBSERVED to be handed to the writer for (`target`), whatever the
request said in `rp` or any other parameter. -/
def wroteTargetOK (dbRes : List Char → Path) (requireAuth : Bool) (svc : AuthSvc) (req : Req) (target : List Char) : Bool :=
  wroteOK dbRes requireAuth svc { req with db := target }

/-- Distinct database names never map to the same resource. -/
def DbInjective (dbRes : List Char → Path) : Prop := ∀ a b, dbRes a = dbRes b → a = b

/-- Recorded deviation `db-collision` (findings/C20.txt): two DIFFERENT names that BOTH contain a '/' and
become equal once every '/' is replaced by '_' — they differ only at positions where one has '/' and the other
'_' (e.g. "a/b_" and "a_b/"). A decidable predicate on the input pair; theorem
`Kap.Props.C20.database_resource_collisions_exactly` shows these are ALL the collisions of the transcribed code. -/
def Dev_db_collision (a b : List Char) : Bool :=
  let under (d : List Char) : List Char := d.map (fun c => if c = '/' then '_' else c)
  a ≠ b && a.contains '/' && b.contains '/' && under a == under b

end Kap.C20.Spec
