/-
Axiom audit: `lake env lean --run tools/Audit.lean Kap.Props.C09`
prints, for every theorem declared in the given module, one line
  THEOREM <name> AXIOMS <comma separated axioms>
and for every `def …_stmt : Prop` (a stated but unproved full-strength statement) one line
  STATED <name>
-/
import Lean
open Lean

def main (args : List String) : IO UInt32 := do
  let some modStr := args.head? | do IO.eprintln "usage: Audit <module>"; return 2
  let modName := modStr.toName
  initSearchPath (← findSysroot)
  let env ← importModules #[{ module := modName }] {} (trustLevel := 1024) (loadExts := false)
  let some modIdx := env.getModuleIdx? modName | do IO.eprintln s!"module {modName} not found"; return 2
  let names := env.header.moduleData[modIdx.toNat]!.constNames
  let mut n := 0
  for c in names do
    if c.isInternal then continue
    match env.find? c with
    | some (.thmInfo _) =>
      if (c.toString.splitOn "._").length > 1 then continue
      -- skip compiler-generated equation / unfolding / match lemmas that get realised in this module
      let last := match c with | .str _ s => s | _ => ""
      if last.startsWith "eq_" || last == "eq_def" || last.startsWith "match_" || last.startsWith "proof_"
         || last.endsWith "_unfold" || last.startsWith "sizeOf_" || last.startsWith "injEq" || last == "inj" then continue
      let ctx : Core.Context := { fileName := "<audit>", fileMap := default }
      let cst : Core.State := { env := env }
      let (arr, _) ← (collectAxioms c : CoreM (Array Name)).toIO ctx cst
      let axs := arr.toList.map toString
      IO.println s!"THEOREM {c} AXIOMS {",".intercalate axs}"
      n := n + 1
    | some (.defnInfo d) =>
      if c.toString.endsWith "_stmt" && d.type.isProp then IO.println s!"STATED {c}"
    | _ => pure ()
  IO.println s!"COUNT {n}"
  return 0
