#!/bin/bash
# Creates /verif/build/flux: a copy of the cached flux module with libflux replaced by a pure-Go stub.
set -euo pipefail
V=/verif
SRC=$(ls -d /root/go/pkg/mod/github.com/influxdata/flux@v0.191.0)
DST=$V/build/flux
if [ -f "$DST/.stub-ok-2" ]; then exit 0; fi
rm -rf "$DST"; mkdir -p "$V/build"
cp -r "$SRC" "$DST"
chmod -R u+w "$DST"
printf 'module github.com/influxdata/flux\n\ngo 1.18\n' > "$DST/go.mod"
rm -f "$DST/go.sum"
L="$DST/libflux/go/libflux"
rm -f "$L"/analyze.go "$L"/parser.go "$L"/link_dynamic.go "$L"/link_static.go "$L"/*_test.go "$L"/gen.go
rm -rf "$L/internal" "$L/testdata"
cp "$V/setup/libflux_stub.go.txt" "$L/stub.go"
# drop every _test.go and testdata of the copy: never built, saves disk
find "$DST" -name '*_test.go' -delete
touch "$DST/.stub-ok-2"
