#!/bin/bash
# Regenerates /verif/harness/go.mod from $R/go.mod (so the harness always links /repo's current tree).
set -euo pipefail
V=/verif
R=${1:-/repo}
H=${2:-$V/harness}
tmp=$(mktemp)
sed -e 's#^module .*#module verifharness#' $R/go.mod > "$tmp"
cat >> "$tmp" <<EOT

require github.com/influxdata/kapacitor v0.0.0

replace github.com/influxdata/kapacitor => $R

replace github.com/influxdata/flux => $V/build/flux
EOT
if ! cmp -s "$tmp" "$H/go.mod"; then cp "$tmp" "$H/go.mod"; fi
rm -f "$tmp"
if ! cmp -s $R/go.sum "$H/go.sum"; then cp $R/go.sum "$H/go.sum"; fi
